#!/bin/sh
# development-time helper: confirm a seeded change in its scratch worktree:
# demo fails with the patch, passes without, tree builds and the existing suite passes with the patch.
# usage: verify_seeded.sh <id> <demo go test args...>
ID=$1; shift
WT=/tmp/seed/wt-$ID; OUT=/tmp/seed/out-$ID
export GOFLAGS=-mod=mod GOPROXY=off GOSUMDB=off GOTOOLCHAIN=local
cd $WT || exit 2
DEMO_CMD=$(python3 -c "import json;print(json.load(open('$OUT/meta.json'))['demo_cmd'])")
echo "demo_cmd: $DEMO_CMD"
git diff > /tmp/seed/$ID.patch
echo "--- with patch (expect FAIL)"; sh -c "$DEMO_CMD" > /tmp/seed/$ID.with.log 2>&1; echo "rc=$?"; tail -3 /tmp/seed/$ID.with.log | cut -c1-200
git checkout -- . 
echo "--- without patch (expect PASS)"; sh -c "$DEMO_CMD" > /tmp/seed/$ID.without.log 2>&1; echo "rc=$?"; tail -3 /tmp/seed/$ID.without.log | cut -c1-200
git apply /tmp/seed/$ID.patch
mkdir -p /tmp/seed/aside-$ID; for f in $(git ls-files --others --exclude-standard); do mkdir -p /tmp/seed/aside-$ID/$(dirname $f); mv $f /tmp/seed/aside-$ID/$f; done
echo "--- suite with patch (expect only 04-packet/simulation to fail)"; go build ./... && go test -vet=off -count=1 ./modules/... 2>&1 | grep -E "^(FAIL|ok|---)" | grep -v "^ok" | head
(cd /tmp/seed/aside-$ID && find . -type f | while read f; do mkdir -p $WT/$(dirname $f); mv $f $WT/$f; done)
echo "done $ID"
