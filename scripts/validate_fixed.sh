#!/bin/sh
# development-time helper: for every FIXED finding, rebuild tibcsim against "HEAD with that fix reverted"
# (scratch worktree outside /repo and /verif) and check that the committed replay reproduces there.
export GOFLAGS=-mod=mod GOPROXY=off GOSUMDB=off GOTOOLCHAIN=local
W=/tmp/vf; rm -rf $W; mkdir -p $W
python3 - <<'PY' > $W/list.txt
import json
seen=set()
for f in json.load(open('/verif/known_findings.json'))['findings']:
    if f['status']=='fixed':
        print(f['commit'], f['replay'], f['signature'])
PY
sed "s#=> /repo#=> $W/wt#" /verif/sim/go.mod > $W/go.mod; cp /verif/sim/go.sum $W/go.sum
for c in $(cut -d' ' -f1 $W/list.txt | sort -u); do
  git -C /repo worktree add -q --detach $W/wt HEAD || exit 2
  if ! git -C $W/wt revert --no-commit $c >/dev/null 2>&1; then
     echo "commit $c: revert conflicts -> trying checkout of the pre-fix files"
     git -C $W/wt revert --abort 2>/dev/null; git -C $W/wt checkout -q -- .
     for f in $(git -C /repo show --name-only --format= $c); do git -C $W/wt checkout -q $c^ -- $f; done
  fi
  if (cd /verif/sim && go build -modfile=$W/go.mod -tags verif -o $W/tibcsim-$c ./cmd/tibcsim) 2> $W/build-$c.log; then
    grep "^$c " $W/list.txt | while read cc replay sig; do
      out=$(cd /verif && $W/tibcsim-$c replay $replay 2>&1 | grep -aE "^VIOLATION|^NOT-REPRODUCED|^DIFFERENT" | head -1 | cut -c1-60)
      echo "$c $sig :: $out"
    done
  else
    echo "$c BUILD FAILED: $(head -3 $W/build-$c.log | tr '\n' ' ')"
  fi
  rm -f $W/tibcsim-$c
  git -C /repo worktree remove --force $W/wt
done
git -C /repo worktree prune
