#!/bin/sh
# usage: scripts/check.sh <property> <quick|thorough>
# Rebuilds tibcsim from /repo's current working tree (build tag verif) and runs
# the property's check.  Exit 0 held / 1 violation / 2 machinery trouble.
export GOFLAGS=-mod=mod GOPROXY=off GOSUMDB=off GOTOOLCHAIN=local
VERIF_DIR=${VERIF_DIR:-/verif}
mkdir -p "$VERIF_DIR/bin"
tmp="$VERIF_DIR/bin/tibcsim.$$"
( cd "$VERIF_DIR/sim" && go build -tags verif -o "$tmp" ./cmd/tibcsim ) >&2 || { echo "build failed" >&2; rm -f "$tmp"; exit 2; }
mv -f "$tmp" "$VERIF_DIR/bin/tibcsim" || exit 2
cd "$VERIF_DIR" && exec ./bin/tibcsim check "$1" "$2"
