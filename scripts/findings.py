#!/usr/bin/env python3
"""Maintain /verif/known_findings.json (development-time helper; checks never write this file).
usage: findings.py add <property> <signature> <open|fixed> <replay-relative-path> <commit-or--> <what fails...>
"""
import json, sys
P = '/verif/known_findings.json'
def main():
    ff = json.load(open(P))
    if sys.argv[1] == 'add':
        prop, sig, status, replay, commit = sys.argv[2:7]
        what = ' '.join(sys.argv[7:])
        ff['findings'] = [f for f in ff['findings'] if not (f['signature'] == sig and f['replay'] == replay)]
        e = {'property': prop, 'signature': sig, 'status': status, 'what_fails': what, 'replay': replay}
        if commit != '-':
            e['commit'] = commit
            e['fixed'] = 'fixed: property=%s %s %s' % (prop, commit, what)
        ff['findings'].append(e)
        ff['findings'].sort(key=lambda f: (f['property'], f['signature']))
        json.dump(ff, open(P, 'w'), indent=1)
        open(P, 'a').write('\n')
main()
