#!/bin/sh
# development-time helper: apply a seeded patch to /repo, run the given checks (quick tier), undo.
# usage: try_seeded.sh <patch.diff> <budget_s> <property>...
P=$1; B=$2; shift 2
if [ -n "$(git -C /repo status --porcelain)" ]; then echo "/repo is not clean"; exit 2; fi
git -C /repo apply "$P" || { echo "patch does not apply"; exit 2; }
for prop in "$@"; do
  VERIF_DIR=/verif VERIF_BUDGET_S=$B /verif/scripts/check.sh $prop quick > /tmp/seeded_$prop.log 2>&1
  rc=$?
  echo "== $prop rc=$rc"; grep -aE "^VIOLATION|signature=|^runs=|MACHINERY" /tmp/seeded_$prop.log | cut -c1-220 | head -8
done
git -C /repo checkout -- . && git -C /repo status --porcelain | head -3
# evidence files were rewritten against the patched tree: restore the committed ones
git -C /verif checkout -- evidence 2>/dev/null
rm -f /verif/replays/*.json
