#!/bin/sh
# background sweep helper (vp run --with-repo): build once against the /repo snapshot, then run checks.
# usage: sweep.sh <seed> <budget_s> <tier> <property>...
export GOFLAGS=-mod=mod GOPROXY=off GOSUMDB=off GOTOOLCHAIN=local
SEED=$1; B=$2; TIER=$3; shift 3
export VERIF_DIR=$PWD
REPO=${VP_RUN_REPO:-/repo}
mkdir -p bin replays evidence
sed "s#=> /repo#=> $REPO#" sim/go.mod > /tmp/sweep-$$.mod; cp sim/go.sum /tmp/sweep-$$.sum
(cd sim && go build -modfile=/tmp/sweep-$$.mod -tags verif -o ../bin/tibcsim ./cmd/tibcsim) || exit 2
rm -f /tmp/sweep-$$.mod /tmp/sweep-$$.sum
for p in "$@"; do
  echo "=== $p seed=$SEED budget=$B"
  VERIF_SEED=$SEED VERIF_BUDGET_S=$B ./bin/tibcsim check $p $TIER 2>&1 | grep -aE "^VIOLATION|signature=|^runs=|^KNOWN|MACHINERY|^NOTE|machinery" | cut -c1-220
done
echo "=== sweep done"
