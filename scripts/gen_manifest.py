#!/usr/bin/env python3
"""Regenerate /verif/MANIFEST.json from the list of implemented checks."""
import json, subprocess
props = [json.loads(l) for l in open('/verif/properties.jsonl')]
listing = subprocess.run(['/verif/bin/tibcsim', 'list'], capture_output=True, text=True).stdout
implemented = {}
for line in listing.splitlines():
    p, name = line.split('\t')[:2]
    implemented.setdefault(p, []).append(name)
notes = json.load(open('/verif/scripts/manifest_notes.json'))
hooks = json.load(open('/verif/scripts/hooks.json'))
checks, na = [], []
for p in props:
    pid = p['id']
    if pid in implemented and pid not in notes.get('_not_claimed', {}):
        n = notes.get(pid, {})
        checks.append({
            'property_id': pid,
            'quick_cmd': 'scripts/check.sh %s quick' % pid,
            'thorough_cmd': 'scripts/check.sh %s thorough' % pid,
            'evidence_file': '/verif/evidence/%s.json' % pid,
            'replay_cmd_template': 'bin/tibcsim replay {path}',
            'engine': 'tibcsim',
            'level_claimed': {'category': 'exploration',
                              'text': n.get('text', 'seeded search over simulated histories, schedules and faults; a clean batch is evidence, not proof'),
                              'design_ref': 'DESIGN.md section 9, ' + pid},
            'level_note': n.get('note', 'trusted: cosmos-sdk BaseApp/store/IAVL, cometbft crypto/types, ics23, irismod nft/mt; consensus and p2p are stubbed by the simulator'),
            'technique': n.get('technique', 'deterministic simulation with fault injection: seeded multi-chain simulator over real SimApp/ABCI, reference-model oracles, replayable minimised tapes'),
        })
    else:
        na.append({'property_id': pid, 'reason': notes.get('_not_claimed', {}).get(pid, 'check not built yet (work in progress; planned per DESIGN.md section 9)')})
m = {'version': 1, 'setup_cmd': 'scripts/setup.sh',
     'hooks': hooks,
     'engines': [{'name': 'tibcsim', 'path': 'sim/', 'serves_properties': [c['property_id'] for c in checks],
                  'kind_free_text': 'single-process deterministic simulator (Go): 1-4 real tibc-go SimApp chains behind ABCI over in-memory disks, simulated relayers/users/governance/clocks, foreign chain models (Tendermint, BSC, ETH), seeded chooser with recorded tape, worker processes, replay and minimisation'}],
     'checks': checks, 'not_applicable': na,
     'notes': 'see DESIGN.md; known findings in known_findings.json (open findings print KNOWN-FINDING, fixed ones are re-checked by their committed replays)'}
json.dump(m, open('/verif/MANIFEST.json', 'w'), indent=1)
print(len(checks), 'checks;', len(na), 'not claimed')
