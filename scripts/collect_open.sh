#!/bin/sh
# development-time helper: iterate "run check, register every reported signature as OPEN" until quiet.
# usage: collect_open.sh <property> [budget_s] [rounds]
P=$1; B=${2:-60}; R=${3:-6}
i=0
while [ $i -lt $R ]; do
  rm -f /verif/replays/$P-*.json
  VERIF_BUDGET_S=$B VERIF_MAX_REPORT=40 VERIF_MINIMISE_S=30 /verif/bin/tibcsim check $P quick > /tmp/collect_$P.log 2>&1
  rc=$?
  grep -E "signature=" /tmp/collect_$P.log | cut -c1-160
  if [ $rc -eq 0 ]; then echo "round $i: quiet"; break; fi
  if [ $rc -eq 2 ]; then echo "round $i: machinery error"; tail -5 /tmp/collect_$P.log; break; fi
  /verif/scripts/register_open.py $P
  i=$((i+1))
done
