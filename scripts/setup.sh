#!/bin/sh
# Build the checker once (warms the Go build cache).  Offline.
export GOFLAGS=-mod=mod GOPROXY=off GOSUMDB=off GOTOOLCHAIN=local
VERIF_DIR=${VERIF_DIR:-/verif}
mkdir -p "$VERIF_DIR/bin" "$VERIF_DIR/evidence" "$VERIF_DIR/replays"
cd "$VERIF_DIR/sim" && go build -tags verif -o "$VERIF_DIR/bin/tibcsim" ./cmd/tibcsim && "$VERIF_DIR/bin/tibcsim" list >/dev/null
