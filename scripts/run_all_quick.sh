#!/bin/sh
# development-time helper: run every claimed quick check once, summarise
cd /verif
for p in $(python3 -c "import json;print(' '.join(c['property_id'] for c in json.load(open('MANIFEST.json'))['checks']))"); do
  start=$(date +%s)
  scripts/check.sh $p quick > /tmp/quick_$p.log 2>&1
  rc=$?
  end=$(date +%s)
  echo "$p rc=$rc $((end-start))s $(grep -c '^KNOWN-FINDING' /tmp/quick_$p.log) known $(grep -c '^VIOLATION' /tmp/quick_$p.log) viol | $(grep '^runs=' /tmp/quick_$p.log | cut -c1-90)"
done
