#!/bin/sh
# development-time helper: build tibcsim against "HEAD of /repo with the given fix commits reverted"
# usage: build_reverted.sh <out-binary> <commit>...   (scratch worktree under /tmp, removed afterwards)
export GOFLAGS=-mod=mod GOPROXY=off GOSUMDB=off GOTOOLCHAIN=local
OUT=$1; shift
W=/tmp/vfr-$$; mkdir -p $W
git -C /repo worktree add -q --detach $W/wt HEAD || exit 2
for c in "$@"; do
  git -C $W/wt revert --no-commit $c >/dev/null 2>&1 || { echo "revert of $c conflicts"; git -C /repo worktree remove --force $W/wt; exit 2; }
done
sed "s#=> /repo#=> $W/wt#" /verif/sim/go.mod > $W/go.mod; cp /verif/sim/go.sum $W/go.sum
(cd /verif/sim && go build -modfile=$W/go.mod -tags verif -o $OUT ./cmd/tibcsim); rc=$?
git -C /repo worktree remove --force $W/wt; rm -rf $W; git -C /repo worktree prune
exit $rc
