#!/usr/bin/env python3
"""Register every replay under /verif/replays for <property> as an OPEN known finding (development-time helper)."""
import json, sys, glob, shutil, subprocess, os
prop = sys.argv[1]
what_by_prefix = json.load(open('/verif/scripts/finding_texts.json'))
for f in sorted(glob.glob('/verif/replays/%s-*.json' % prop)):
    rf = json.load(open(f))
    sig = rf['expect']['signature']
    name = 'findings/' + sig.replace('/', '-').replace('@', '-at-') + '.json'
    shutil.copy(f, '/verif/' + name)
    what = None
    for pre, txt in what_by_prefix.items():
        if sig.startswith(pre):
            what = txt
    if what is None:
        what = rf['expect']['detail'][:200]
    subprocess.check_call(['/verif/scripts/findings.py', 'add', prop, sig, 'open', name, '-', what])
    os.remove(f)
    print('registered', sig)
