// Package scen contains the reusable scenario engine (users, honest and
// Byzantine relayers, transport faults) on top of package world.
package scen

import (
	"fmt"

	sdk "github.com/cosmos/cosmos-sdk/types"

	clienttypes "github.com/bianjieai/tibc-go/modules/tibc/core/02-client/types"
	packettypes "github.com/bianjieai/tibc-go/modules/tibc/core/04-packet/types"

	"tibcsim/core"
	"tibcsim/model"
	"tibcsim/world"
)

const (
	KRecv = iota
	KAck
	KClean
)

var kindName = []string{"recv", "ack", "clean"}

// Item is a unit of relayer work discovered from block events.
type Item struct {
	ID     int
	Kind   int
	P      packettypes.Packet
	CP     packettypes.CleanPacket
	Ack    []byte
	On     string // chain holding the provable fact
	Target string // chain that must receive the message
	Height int64  // block of `On` in which the fact was written
	Done   bool
	Tries  int
}

func (it *Item) String() string {
	if it.Kind == KClean {
		return fmt.Sprintf("clean(%s->%s N=%d) %s=>%s", it.CP.SourceChain, it.CP.DestinationChain, it.CP.Sequence, it.On, it.Target)
	}
	return fmt.Sprintf("%s(%s relay=%q port=%s) %s=>%s", kindName[it.Kind], model.KeyOf(it.P), it.P.RelayChain, it.P.Port, it.On, it.Target)
}

// Sent is a relayer message that was built (and possibly submitted).
type Sent struct {
	Item    *Item
	Target  string
	Msg     sdk.Msg
	Prover  string
	Version int64 // IAVL version the proof was taken at
	Mut     string
	Signer  *world.Account
	Result  *world.TxResult
	// Expect is the model's verdict computed before submission:
	// "" unconstrained, "reject" must be rejected, "accept" must be accepted.
	Expect string
	Why    string
}

// UserAct is the meta of a user transaction.
type UserAct struct {
	Kind   string
	Chain  string
	User   *world.Account
	Detail string
	Result *world.TxResult
}

// Engine drives users and relayers over a world.
type Engine struct {
	C     *core.Ctx
	W     *world.World
	PM    *model.Packets
	Items []*Item
	Sent  []*Sent
	Acts  []*UserAct
	Held  []*heldTx // delayed transport messages

	// hooks for property oracles
	OnRelayTx func(s *Sent, n *world.Node, r *world.TxResult, before map[string]string)
	OnUserTx  func(a *UserAct, n *world.Node, r *world.TxResult, before map[string]string)
	// DumpStores, when non-empty, makes Exec take a KV dump of these stores
	// before each single-tx block and hand it to the hooks.
	DumpStores []string

	nextItem int
}

type heldTx struct {
	node *world.Node
	req  *world.TxReq
}

func NewEngine(c *core.Ctx, w *world.World) *Engine {
	var names []string
	for _, n := range w.Nodes {
		names = append(names, n.Name)
	}
	e := &Engine{C: c, W: w, PM: model.NewPackets(names...)}
	w.Observers = append(w.Observers, e.PM, e)
	return e
}

// OnBlock discovers relayer work from events (like a production relayer).
func (e *Engine) OnBlock(n *world.Node, rec *world.BlockRecord) {
	for _, r := range rec.Results {
		if !r.OK() {
			continue
		}
		for _, ev := range world.ParsePacketEvents(r.Events) {
			switch ev.Type {
			case packettypes.EventTypeSendPacket:
				e.addItem(&Item{Kind: KRecv, P: ev.Packet, On: n.Name, Target: world.NextHopOfPacket(ev.Packet, n.Name), Height: rec.Height})
			case packettypes.EventTypeWriteAck:
				if ev.Packet.SourceChain == n.Name {
					continue
				}
				e.addItem(&Item{Kind: KAck, P: ev.Packet, Ack: ev.Ack, On: n.Name, Target: world.PrevHopOfAck(ev.Packet, n.Name), Height: rec.Height})
			case packettypes.EventTypeSendCleanPacket:
				cp := packettypes.CleanPacket{Sequence: ev.Packet.Sequence, SourceChain: ev.Packet.SourceChain, DestinationChain: ev.Packet.DestinationChain, RelayChain: ev.Packet.RelayChain}
				tgt := cp.DestinationChain
				if n.Name == cp.SourceChain && cp.RelayChain != "" {
					tgt = cp.RelayChain
				}
				e.addItem(&Item{Kind: KClean, CP: cp, On: n.Name, Target: tgt, Height: rec.Height})
			case packettypes.EventTypeRecvPacket:
				e.markDone(KRecv, n.Name, model.KeyOf(ev.Packet), 0)
			case packettypes.EventTypeAcknowledgePacket:
				e.markDone(KAck, n.Name, model.KeyOf(ev.Packet), 0)
			case packettypes.EventTypeRecvCleanPacket:
				e.markDone(KClean, n.Name, model.KeyOf(ev.Packet), ev.Packet.Sequence)
			}
		}
	}
}

func (e *Engine) addItem(it *Item) {
	if _, ok := e.W.ByName[it.Target]; !ok {
		return // target chain is not part of this world (unknown destination)
	}
	it.ID = e.nextItem
	e.nextItem++
	e.Items = append(e.Items, it)
}

func (e *Engine) markDone(kind int, target string, k model.PKey, n uint64) {
	for _, it := range e.Items {
		if it.Done || it.Kind != kind || it.Target != target {
			continue
		}
		if kind == KClean {
			if it.CP.SourceChain == k.Src && it.CP.DestinationChain == k.Dst && it.CP.Sequence == n {
				it.Done = true
			}
		} else if model.KeyOf(it.P) == k {
			it.Done = true
		}
	}
}

// Pending returns the undelivered items.
func (e *Engine) Pending() []*Item {
	var out []*Item
	for _, it := range e.Items {
		if !it.Done {
			out = append(out, it)
		}
	}
	return out
}

// Exec runs one tx in its own block on n, calling the hooks.
func (e *Engine) Exec(n *world.Node, req *world.TxReq) *world.TxResult {
	if n.Down {
		e.C.Check(n.Restart())
		e.W.Stats.Inc("restart")
	}
	var before map[string]string
	if len(e.DumpStores) > 0 {
		before = n.DumpMap(e.DumpStores...)
	}
	r, err := e.W.One(n, req)
	e.C.Check(err)
	switch m := req.Meta.(type) {
	case *Sent:
		m.Result = r
		e.C.Op(fmt.Sprintf("%s%s:%d", kindOfSent(m), m.Mut, r.Code))
		if e.OnRelayTx != nil {
			e.OnRelayTx(m, n, r, before)
		}
	case *UserAct:
		m.Result = r
		e.C.Op(fmt.Sprintf("%s:%d", m.Kind, r.Code))
		if e.OnUserTx != nil {
			e.OnUserTx(m, n, r, before)
		}
	}
	return r
}

func kindOfSent(s *Sent) string {
	if s.Item == nil {
		return "update"
	}
	return kindName[s.Item.Kind]
}

// EnsureProvable makes sure the prover chain has a header above the item's
// height (produces an empty block if needed).
func (e *Engine) EnsureProvable(prover *world.Node, height int64) {
	for prover.Height < height+1 {
		if prover.Down {
			e.C.Check(prover.Restart())
		}
		_, err := e.W.Block(prover, nil, world.NoCrash)
		e.C.Check(err)
	}
}

// Update submits an honest client update of target's client of prover to the
// prover's latest header.  Returns nil when already up to date.
func (e *Engine) Update(target, prover *world.Node, signer *world.Account) *world.TxResult {
	latest, ok := e.W.ClientLatest(target, prover.Name)
	if !ok {
		return nil
	}
	if int64(latest.RevisionHeight) >= prover.Height {
		return nil
	}
	msg, err := e.W.MsgUpdate(target, prover, prover.Height, signer)
	e.C.Check(err)
	s := &Sent{Target: target.Name, Msg: msg, Prover: prover.Name, Signer: signer}
	e.Sent = append(e.Sent, s)
	return e.Exec(target, &world.TxReq{Signer: signer, Msgs: []sdk.Msg{msg}, Meta: s, Label: "update(" + prover.Name + ")"})
}

// Build creates the genuine relayer message for an item with a proof taken at
// IAVL version v of the prover.
func (e *Engine) Build(it *Item, v int64, signer *world.Account) *Sent {
	prover := e.W.ByName[it.On]
	var msg sdk.Msg
	var err error
	switch it.Kind {
	case KRecv:
		msg, err = e.W.MsgRecv(it.P, prover, v, signer)
	case KAck:
		msg, err = e.W.MsgAck(it.P, it.Ack, prover, v, signer)
	case KClean:
		msg, err = e.W.MsgRecvClean(it.CP, prover, v, signer)
	}
	e.C.Check(err)
	return &Sent{Item: it, Target: it.Target, Msg: msg, Prover: it.On, Version: v, Signer: signer}
}

// Submit executes a built message on its target.
func (e *Engine) Submit(s *Sent) *world.TxResult {
	e.Sent = append(e.Sent, s)
	if s.Item != nil {
		s.Item.Tries++
	}
	label := kindOfSent(s)
	if s.Item != nil {
		label = s.Item.String()
	}
	if s.Mut != "" {
		label += " MUT=" + s.Mut
	}
	return e.Exec(e.W.ByName[s.Target], &world.TxReq{Signer: s.Signer, Msgs: []sdk.Msg{s.Msg}, Meta: s, Label: label})
}

// Prepare does everything the honest relayer does except submitting: the fact
// is made provable, the target's client is updated, and the genuine message is
// built (so that a Byzantine relayer can tamper with a message whose packet is
// still undelivered).
func (e *Engine) Prepare(it *Item, signer *world.Account) *Sent {
	prover, target := e.W.ByName[it.On], e.W.ByName[it.Target]
	if prover.Down {
		e.C.Check(prover.Restart())
	}
	e.EnsureProvable(prover, it.Height)
	e.Update(target, prover, signer)
	latest, ok := e.W.ClientLatest(target, prover.Name)
	if !ok {
		return nil
	}
	v := int64(latest.RevisionHeight) - 1
	if v < it.Height {
		v = prover.Height - 1
	}
	return e.Build(it, v, signer)
}

// Deliver is the honest relayer: make the fact provable, update the client,
// submit the message with a proof at the newest height the client knows.
func (e *Engine) Deliver(it *Item, signer *world.Account) *Sent {
	prover, target := e.W.ByName[it.On], e.W.ByName[it.Target]
	if prover.Down {
		e.C.Check(prover.Restart())
	}
	e.EnsureProvable(prover, it.Height)
	e.Update(target, prover, signer)
	latest, ok := e.W.ClientLatest(target, prover.Name)
	if !ok {
		return nil
	}
	v := int64(latest.RevisionHeight) - 1
	if v < it.Height {
		// update did not go through (e.g. expired client); use the newest possible anyway
		v = prover.Height - 1
	}
	s := e.Build(it, v, signer)
	e.Submit(s)
	return s
}

// Drain delivers pending items honestly until nothing is left or the budget
// is exhausted.  Returns the number of relayer steps used.
func (e *Engine) Drain(maxSteps int) int {
	steps := 0
	for steps < maxSteps {
		p := e.Pending()
		if len(p) == 0 {
			break
		}
		progressed := false
		for _, it := range p {
			if it.Done {
				continue
			}
			if it.Tries > 3 {
				continue
			}
			e.C.Step("drain")
			e.Deliver(it, e.W.Relayers[0])
			steps++
			progressed = true
			if steps >= maxSteps {
				break
			}
		}
		if !progressed {
			break
		}
	}
	return steps
}

// Heights helper: tibc height of a chain at block h.
func HeightOf(chain string, h int64) clienttypes.Height {
	return clienttypes.NewHeight(world.Revision(chain), uint64(h))
}
