package scen

import (
	"bytes"
	clienttypes "github.com/bianjieai/tibc-go/modules/tibc/core/02-client/types"
	packettypes "github.com/bianjieai/tibc-go/modules/tibc/core/04-packet/types"
	host "github.com/bianjieai/tibc-go/modules/tibc/core/24-host"

	"tibcsim/model"
	"tibcsim/world"
)

// Mutation kinds of the Byzantine relayer.
const (
	MutData        = "data"
	MutSeq         = "seq"
	MutSrc         = "src"
	MutDst         = "dst"
	MutTarget      = "target"
	MutProver      = "prover"
	MutProofBytes  = "proofbytes"
	MutProofKey    = "proofkey"
	MutProofHeight = "proofheight"
	MutSigner      = "signer"
	MutAckBytes    = "ackbytes"
	MutPort        = "port"
	MutRelay       = "relay"
	// MutDataEquiv rewrites packet data into bytes that a lossy normalisation (text decoding,
	// case folding, trimming, re-encoding) could confuse with the original
	MutDataEquiv = "dataeq"
)

// parts gives uniform access to the three provable message kinds.
type parts struct {
	P      *packettypes.Packet
	Proof  *[]byte
	Height *clienttypes.Height
	Signer *string
	Ack    *[]byte
	CP     *packettypes.CleanPacket
}

func partsOf(s *Sent) parts {
	switch m := s.Msg.(type) {
	case *packettypes.MsgRecvPacket:
		return parts{P: &m.Packet, Proof: &m.ProofCommitment, Height: &m.ProofHeight, Signer: &m.Signer}
	case *packettypes.MsgAcknowledgement:
		return parts{P: &m.Packet, Proof: &m.ProofAcked, Height: &m.ProofHeight, Signer: &m.Signer, Ack: &m.Acknowledgement}
	case *packettypes.MsgRecvCleanPacket:
		return parts{CP: &m.CleanPacket, Proof: &m.ProofCommitment, Height: &m.ProofHeight, Signer: &m.Signer}
	}
	return parts{}
}

// CloneSent deep-copies a logged message so that it can be mutated or replayed.
func CloneSent(s *Sent) *Sent {
	c := *s
	c.Result = nil
	switch m := s.Msg.(type) {
	case *packettypes.MsgRecvPacket:
		mm := *m
		mm.Packet.Data = append([]byte(nil), m.Packet.Data...)
		mm.ProofCommitment = append([]byte(nil), m.ProofCommitment...)
		c.Msg = &mm
	case *packettypes.MsgAcknowledgement:
		mm := *m
		mm.Packet.Data = append([]byte(nil), m.Packet.Data...)
		mm.ProofAcked = append([]byte(nil), m.ProofAcked...)
		mm.Acknowledgement = append([]byte(nil), m.Acknowledgement...)
		c.Msg = &mm
	case *packettypes.MsgRecvCleanPacket:
		mm := *m
		mm.ProofCommitment = append([]byte(nil), m.ProofCommitment...)
		c.Msg = &mm
	}
	return &c
}

// otherChain draws a chain name different from all of `not`.
func (e *Engine) otherChain(not ...string) string {
	var cands []string
	for _, n := range e.W.Nodes {
		ok := true
		for _, x := range not {
			if n.Name == x {
				ok = false
			}
		}
		if ok {
			cands = append(cands, n.Name)
		}
	}
	if len(cands) == 0 {
		return ""
	}
	return cands[e.C.Ch.Int(len(cands))]
}

// Mutate applies one mutation of the given kind to a copy of a genuine
// message.  Returns nil when the mutation is not applicable.
func (e *Engine) Mutate(orig *Sent, kind string) *Sent {
	ch := e.C.Ch
	s := CloneSent(orig)
	s.Mut = kind
	pt := partsOf(s)
	if pt.Proof == nil {
		return nil
	}
	switch kind {
	case MutData:
		if pt.P == nil || len(pt.P.Data) == 0 {
			return nil
		}
		switch ch.Int(4) {
		case 0:
			i := ch.Int(len(pt.P.Data))
			pt.P.Data[i] ^= byte(1 << uint(ch.Int(8)))
			s.Mut += "-flip"
		case 1:
			pt.P.Data = append(pt.P.Data, byte(ch.Int(256)))
			s.Mut += "-append"
		case 2:
			if len(pt.P.Data) < 2 {
				return nil
			}
			pt.P.Data = pt.P.Data[:len(pt.P.Data)-1]
			s.Mut += "-trunc"
		default:
			// data of another packet known to the relayer
			var others [][]byte
			for _, it := range e.Items {
				if it.Kind == KRecv && string(it.P.Data) != string(pt.P.Data) {
					others = append(others, it.P.Data)
				}
			}
			if len(others) == 0 {
				return nil
			}
			pt.P.Data = append([]byte(nil), others[ch.Int(len(others))]...)
			s.Mut += "-swap"
		}
	case MutDataEquiv:
		if pt.P == nil || len(pt.P.Data) == 0 {
			return nil
		}
		d := pt.P.Data
		var hi, letters []int
		for i, b := range d {
			if b >= 0x80 {
				hi = append(hi, i)
			}
			if (b >= 'a' && b <= 'z') || (b >= 'A' && b <= 'Z') {
				letters = append(letters, i)
			}
		}
		switch ch.Int(6) {
		case 0: // another byte outside ASCII in place of one (same length)
			if len(hi) == 0 {
				return nil
			}
			i := hi[ch.Int(len(hi))]
			nb := byte(0x80 | ch.Int(128))
			if nb == d[i] {
				nb ^= 1
			}
			d[i] = nb
			s.Mut += "-hibyte"
		case 1: // a run of bytes outside ASCII made longer
			if len(hi) == 0 {
				return nil
			}
			i := hi[ch.Int(len(hi))]
			extra := bytes.Repeat([]byte{byte(0x80 | ch.Int(128))}, 1+ch.Int(2))
			pt.P.Data = append(append(append([]byte(nil), d[:i]...), extra...), d[i:]...)
			s.Mut += "-hirun"
		case 2: // letter case
			if len(letters) == 0 {
				return nil
			}
			d[letters[ch.Int(len(letters))]] ^= 0x20
			s.Mut += "-case"
		case 3: // padding inside or around
			pad := []byte{0, ' ', '\n', '\t'}[ch.Int(4)]
			i := ch.Int(len(d) + 1)
			pt.P.Data = append(append(append([]byte(nil), d[:i]...), pad), d[i:]...)
			s.Mut += "-pad"
		case 4: // two neighbouring bytes swapped
			if len(d) < 2 {
				return nil
			}
			i := ch.Int(len(d) - 1)
			if d[i] == d[i+1] {
				return nil
			}
			d[i], d[i+1] = d[i+1], d[i]
			s.Mut += "-transpose"
		default: // a byte outside ASCII replaced by the UTF-8 replacement character
			if len(hi) == 0 {
				return nil
			}
			i := hi[ch.Int(len(hi))]
			pt.P.Data = append(append(append([]byte(nil), d[:i]...), 0xEF, 0xBF, 0xBD), d[i+1:]...)
			s.Mut += "-replchar"
		}
	case MutSeq:
		delta := []int64{1, -1, 2, 7}[ch.Int(4)]
		if pt.P != nil {
			ns := int64(pt.P.Sequence) + delta
			if ns < 1 {
				ns = int64(pt.P.Sequence) + 1
			}
			pt.P.Sequence = uint64(ns)
		} else {
			ns := int64(pt.CP.Sequence) + delta
			if ns < 1 {
				ns = int64(pt.CP.Sequence) + 1
			}
			pt.CP.Sequence = uint64(ns)
		}
	case MutSrc:
		if pt.P != nil {
			o := e.otherChain(pt.P.SourceChain, pt.P.DestinationChain)
			if o == "" {
				return nil
			}
			pt.P.SourceChain = o
		} else {
			o := e.otherChain(pt.CP.SourceChain, pt.CP.DestinationChain)
			if o == "" {
				return nil
			}
			pt.CP.SourceChain = o
		}
	case MutDst:
		if pt.P != nil {
			o := e.otherChain(pt.P.SourceChain, pt.P.DestinationChain)
			if o == "" {
				return nil
			}
			pt.P.DestinationChain = o
		} else {
			o := e.otherChain(pt.CP.SourceChain, pt.CP.DestinationChain)
			if o == "" {
				return nil
			}
			pt.CP.DestinationChain = o
		}
	case MutTarget:
		o := e.otherChain(s.Target, s.Prover)
		if o == "" {
			return nil
		}
		s.Target = o
	case MutProver:
		// same key, but proven from another chain's store
		o := e.otherChain(s.Prover, s.Target)
		if o == "" {
			return nil
		}
		other := e.W.ByName[o]
		key := keyOfSent(s)
		v := other.Height - 1
		if v < 1 {
			return nil
		}
		proof, ph, _, err := other.ProofAt(key, v)
		if err != nil {
			return nil
		}
		*pt.Proof = proof
		*pt.Height = ph
	case MutProofBytes:
		if len(*pt.Proof) < 4 {
			return nil
		}
		switch ch.Int(3) {
		case 0:
			i := ch.Int(len(*pt.Proof))
			(*pt.Proof)[i] ^= byte(1 << uint(ch.Int(8)))
		case 1:
			*pt.Proof = (*pt.Proof)[:len(*pt.Proof)-1-ch.Int(len(*pt.Proof)/2)]
		default:
			*pt.Proof = append(*pt.Proof, 0)
		}
	case MutProofKey:
		prover := e.W.ByName[s.Prover]
		var key []byte
		if pt.P != nil {
			switch ch.Int(3) {
			case 0: // the other kind of key for the same packet
				if s.Item != nil && s.Item.Kind == KRecv {
					key = host.PacketAcknowledgementKey(pt.P.SourceChain, pt.P.DestinationChain, pt.P.Sequence)
				} else {
					key = host.PacketCommitmentKey(pt.P.SourceChain, pt.P.DestinationChain, pt.P.Sequence)
				}
			case 1:
				key = host.PacketCommitmentKey(pt.P.SourceChain, pt.P.DestinationChain, pt.P.Sequence+1)
			default:
				key = host.PacketReceiptKey(pt.P.SourceChain, pt.P.DestinationChain, pt.P.Sequence)
			}
		} else {
			key = host.MaxAckSeqKey(pt.CP.SourceChain, pt.CP.DestinationChain)
		}
		proof, ph, _, err := prover.ProofAt(key, s.Version)
		if err != nil {
			return nil
		}
		*pt.Proof = proof
		*pt.Height = ph
	case MutProofHeight:
		switch ch.Int(4) {
		case 0: // claim another height for the same proof bytes
			pt.Height.RevisionHeight += uint64(1 + ch.Int(3))
			s.Mut += "-claim+"
		case 1:
			if pt.Height.RevisionHeight > 2 {
				pt.Height.RevisionHeight -= uint64(1 + ch.Int(2))
			}
			s.Mut += "-claim-"
		case 2: // genuine proof taken at an earlier version (possibly before the fact existed)
			prover := e.W.ByName[s.Prover]
			v := int64(1 + ch.Int(int(s.Version)))
			proof, ph, _, err := prover.ProofAt(keyOfSent(s), v)
			if err != nil {
				return nil
			}
			*pt.Proof, *pt.Height = proof, ph
			s.Version = v
			s.Mut += "-older"
		default: // genuine proof at the newest version (possibly unknown to the client, or after deletion)
			prover := e.W.ByName[s.Prover]
			v := prover.Height
			proof, ph, _, err := prover.ProofAt(keyOfSent(s), v)
			if err != nil {
				return nil
			}
			*pt.Proof, *pt.Height = proof, ph
			s.Version = v
			s.Mut += "-newest"
		}
	case MutSigner:
		a := e.W.Users[ch.Int(len(e.W.Users))]
		s.Signer = a
		*pt.Signer = a.Addr.String()
	case MutAckBytes:
		if pt.Ack == nil {
			return nil
		}
		switch ch.Int(4) {
		case 0:
			*pt.Ack = packettypes.NewErrorAcknowledgement("forged").GetBytes()
			s.Mut += "-toerror"
		case 1:
			*pt.Ack = packettypes.NewResultAcknowledgement([]byte{1}).GetBytes()
			s.Mut += "-tosuccess"
		case 2:
			i := ch.Int(len(*pt.Ack))
			(*pt.Ack)[i] ^= byte(1 << uint(ch.Int(8)))
			s.Mut += "-flip"
		default:
			*pt.Ack = append(*pt.Ack, 0)
			s.Mut += "-append"
		}
	case MutPort:
		if pt.P == nil {
			return nil
		}
		ports := []string{"NFT", "MT", "tibcmock", "nosuchport"}
		var cands []string
		for _, p := range ports {
			if p != pt.P.Port {
				cands = append(cands, p)
			}
		}
		pt.P.Port = cands[ch.Int(len(cands))]
	case MutRelay:
		if pt.P == nil {
			return nil
		}
		if pt.P.RelayChain != "" {
			if ch.Bool(1, 2) {
				pt.P.RelayChain = ""
				s.Mut += "-removed"
			} else {
				o := e.otherChain(pt.P.RelayChain, pt.P.SourceChain, pt.P.DestinationChain)
				if o == "" {
					pt.P.RelayChain = ""
					s.Mut += "-removed"
				} else {
					pt.P.RelayChain = o
					s.Mut += "-replaced"
				}
			}
		} else {
			o := e.otherChain(pt.P.SourceChain, pt.P.DestinationChain)
			if o == "" {
				return nil
			}
			pt.P.RelayChain = o
			s.Mut += "-added"
		}
	default:
		return nil
	}
	return s
}

func keyOfSent(s *Sent) []byte {
	pt := partsOf(s)
	switch s.Msg.(type) {
	case *packettypes.MsgRecvPacket:
		return host.PacketCommitmentKey(pt.P.SourceChain, pt.P.DestinationChain, pt.P.Sequence)
	case *packettypes.MsgAcknowledgement:
		return host.PacketAcknowledgementKey(pt.P.SourceChain, pt.P.DestinationChain, pt.P.Sequence)
	default:
		return host.CleanPacketCommitmentKey(pt.CP.SourceChain, pt.CP.DestinationChain)
	}
}

// SentPacket returns the packet a message claims, its proof height and kind.
func SentPacket(s *Sent) (p packettypes.Packet, ack []byte, h clienttypes.Height, ok bool) {
	pt := partsOf(s)
	if pt.P == nil {
		return p, nil, h, false
	}
	var a []byte
	if pt.Ack != nil {
		a = *pt.Ack
	}
	return *pt.P, a, *pt.Height, true
}

func SentClean(s *Sent) (cp packettypes.CleanPacket, h clienttypes.Height, ok bool) {
	pt := partsOf(s)
	if pt.CP == nil {
		return cp, h, false
	}
	return *pt.CP, *pt.Height, true
}

// ProvingChainForRecv is the chain the statement of C01 names: the source, or
// the relay chain when x is the destination of a relayed packet.
func ProvingChainForRecv(p packettypes.Packet, x string) string {
	if p.DestinationChain == x && p.RelayChain != "" {
		return p.RelayChain
	}
	return p.SourceChain
}

// ProvingChainForAck: the destination, or the relay chain when x is the source of a relayed packet.
func ProvingChainForAck(p packettypes.Packet, x string) string {
	if p.SourceChain == x && p.RelayChain != "" {
		return p.RelayChain
	}
	return p.DestinationChain
}

var _ = model.KeyOf
var _ = world.Short
