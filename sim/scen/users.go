package scen

import (
	"fmt"

	sdk "github.com/cosmos/cosmos-sdk/types"
	mttypes "mods.irisnet.org/modules/mt/types"
	nfttypes "mods.irisnet.org/modules/nft/types"

	mttransfer "github.com/bianjieai/tibc-go/modules/tibc/apps/mt_transfer/types"
	nfttransfer "github.com/bianjieai/tibc-go/modules/tibc/apps/nft_transfer/types"
	packettypes "github.com/bianjieai/tibc-go/modules/tibc/core/04-packet/types"

	"tibcsim/world"
)

// Universe is the small, colliding value space user operations draw from.
type Universe struct {
	NFTClasses []string
	NFTIDs     []string
	Amounts    []uint64
	// BadReceiverPct: percentage of cross-chain transfers with an invalid receiver (-> error ack)
	BadReceiverPct int
	// UnknownDestPct: percentage of transfers addressed to a chain no client exists for (via a relay chain)
	UnknownDestPct int
	// NoNewMTIDs disables operations that make irismod's MT module generate a new
	// denom / MT id from its internal counters (used after a genesis re-import:
	// whether irismod restores those counters is outside TIBC)
	NoNewMTIDs bool
	// RelayPct: percentage of transfers that name a relay chain (needs >= 3 chains)
	RelayPct int
}

func DefaultUniverse() Universe {
	return Universe{
		NFTClasses: []string{"kitty", "doggy", "nftx"},
		NFTIDs:     []string{"aaa", "bbb", "ccc"},
		Amounts:    []uint64{1, 2, 7, 100},
		BadReceiverPct: 10, RelayPct: 40,
	}
}

func (e *Engine) user(n *world.Node, u *world.Account, kind, detail string, msgs ...sdk.Msg) *world.TxResult {
	a := &UserAct{Kind: kind, Chain: n.Name, User: u, Detail: detail}
	e.Acts = append(e.Acts, a)
	return e.Exec(n, &world.TxReq{Signer: u, Msgs: msgs, Meta: a, Label: kind + "(" + detail + ")"})
}

func (e *Engine) IssueNFTDenom(n *world.Node, u *world.Account, class string) *world.TxResult {
	return e.user(n, u, "nft-issue", class, nfttypes.NewMsgIssueDenom(class, class, "", u.Addr.String(), "", false, false, "", "", "", ""))
}

func (e *Engine) MintNFT(n *world.Node, u *world.Account, class, id string, to *world.Account) *world.TxResult {
	return e.user(n, u, "nft-mint", class+"/"+id, nfttypes.NewMsgMintNFT(id, class, "", "uri-"+id, "", "", u.Addr.String(), to.Addr.String()))
}

func (e *Engine) TransferNFT(n *world.Node, u *world.Account, class, id string, to *world.Account) *world.TxResult {
	return e.user(n, u, "nft-send", class+"/"+id, nfttypes.NewMsgTransferNFT(id, class, nfttypes.DoNotModify, nfttypes.DoNotModify, nfttypes.DoNotModify, nfttypes.DoNotModify, u.Addr.String(), to.Addr.String()))
}

func (e *Engine) BurnNFT(n *world.Node, u *world.Account, class, id string) *world.TxResult {
	return e.user(n, u, "nft-burn", class+"/"+id, nfttypes.NewMsgBurnNFT(u.Addr.String(), id, class))
}

func (e *Engine) NftTransfer(n *world.Node, u *world.Account, class, id, receiver, dest, relay string) *world.TxResult {
	return e.user(n, u, "nft-xfer", fmt.Sprintf("%s/%s->%s via %q", class, id, dest, relay),
		nfttransfer.NewMsgNftTransfer(class, id, u.Addr.String(), receiver, dest, relay, ""))
}

func (e *Engine) IssueMTDenom(n *world.Node, u *world.Account, name string) *world.TxResult {
	return e.user(n, u, "mt-issue", name, mttypes.NewMsgIssueDenom(name, "", u.Addr.String()))
}

// MintMT with id=="" issues a new MT in the class.
func (e *Engine) MintMT(n *world.Node, u *world.Account, class, id string, amount uint64, to *world.Account) *world.TxResult {
	return e.user(n, u, "mt-mint", fmt.Sprintf("%s/%s+%d", world.Short(class, 8), world.Short(id, 8), amount),
		mttypes.NewMsgMintMT(id, class, amount, "", u.Addr.String(), to.Addr.String()))
}

func (e *Engine) TransferMT(n *world.Node, u *world.Account, class, id string, amount uint64, to *world.Account) *world.TxResult {
	return e.user(n, u, "mt-send", fmt.Sprintf("%s/%s:%d", world.Short(class, 8), world.Short(id, 8), amount),
		mttypes.NewMsgTransferMT(id, class, u.Addr.String(), to.Addr.String(), amount))
}

func (e *Engine) BurnMT(n *world.Node, u *world.Account, class, id string, amount uint64) *world.TxResult {
	return e.user(n, u, "mt-burn", fmt.Sprintf("%s/%s:%d", world.Short(class, 8), world.Short(id, 8), amount),
		mttypes.NewMsgBurnMT(u.Addr.String(), id, class, amount))
}

func (e *Engine) MtTransfer(n *world.Node, u *world.Account, class, id string, amount uint64, receiver, dest, relay string) *world.TxResult {
	return e.user(n, u, "mt-xfer", fmt.Sprintf("%s/%s:%d->%s via %q", world.Short(class, 8), world.Short(id, 8), amount, dest, relay),
		mttransfer.NewMsgMtTransfer(class, id, u.Addr.String(), receiver, dest, relay, "", amount))
}

func (e *Engine) CleanPacket(n *world.Node, u *world.Account, dst, relay string, seq uint64) *world.TxResult {
	cp := packettypes.NewCleanPacket(seq, n.Name, dst, relay)
	return e.user(n, u, "clean", fmt.Sprintf("%s N=%d via %q", dst, seq, relay), packettypes.NewMsgCleanPacket(cp, u.Addr))
}

// CleanPacketFrom submits a MsgCleanPacket whose source_chain field names src
// (which need not be the executing chain).
func (e *Engine) CleanPacketFrom(n *world.Node, u *world.Account, src, dst, relay string, seq uint64) *world.TxResult {
	cp := packettypes.NewCleanPacket(seq, src, dst, relay)
	return e.user(n, u, "clean", fmt.Sprintf("%s->%s N=%d via %q (foreign source)", src, dst, seq, relay), packettypes.NewMsgCleanPacket(cp, u.Addr))
}

func (e *Engine) acct(addr string) *world.Account {
	for _, a := range e.W.Users {
		if a.Addr.String() == addr {
			return a
		}
	}
	return nil
}

// pickRoute draws a destination and optional relay chain for a transfer from n.
func (e *Engine) pickRoute(n *world.Node, u Universe) (dest, relay string) {
	ch := e.C.Ch
	var others []*world.Node
	for _, o := range e.W.Nodes {
		if o != n {
			others = append(others, o)
		}
	}
	d := others[ch.Int(len(others))]
	dest = d.Name
	if u.UnknownDestPct > 0 && ch.Int(100) < u.UnknownDestPct {
		// a destination nobody has a client of, reachable only through a relay chain
		e.W.Stats.Inc("unknown-destination-send")
		return "chain-zzz9", d.Name
	}
	if len(others) >= 2 && ch.Int(100) < u.RelayPct {
		var rs []*world.Node
		for _, o := range others {
			if o != d {
				rs = append(rs, o)
			}
		}
		relay = rs[ch.Int(len(rs))].Name
	}
	return
}

func (e *Engine) pickReceiver(u Universe) string {
	ch := e.C.Ch
	if ch.Int(100) < u.BadReceiverPct {
		return []string{"not-an-address", "cosmos1invalid", "x"}[ch.Int(3)]
	}
	return e.W.Users[ch.Int(len(e.W.Users))].Addr.String()
}

// SeedTokens gives the world something to transfer: on every chain one NFT
// class with a few NFTs and one MT class with one MT, owned by users.
func (e *Engine) SeedTokens(u Universe, perChain int) {
	ch := e.C.Ch
	for _, n := range e.W.Nodes {
		owner := e.W.Users[ch.Int(len(e.W.Users))]
		class := u.NFTClasses[ch.Int(len(u.NFTClasses))]
		e.IssueNFTDenom(n, owner, class)
		for i := 0; i < perChain && i < len(u.NFTIDs); i++ {
			e.MintNFT(n, owner, class, u.NFTIDs[i], e.W.Users[ch.Int(len(e.W.Users))])
		}
		e.IssueMTDenom(n, owner, "mtclass")
		if cls := e.mtClassesOwnedBy(n, owner); len(cls) > 0 {
			e.MintMT(n, owner, cls[0], "", 1000, e.W.Users[ch.Int(len(e.W.Users))])
		}
	}
}

func (e *Engine) mtClassesOwnedBy(n *world.Node, u *world.Account) []string {
	var out []string
	for _, d := range n.App.MtKeeper.GetDenoms(n.QueryCtx()) {
		if d.Owner == u.Addr.String() {
			out = append(out, d.Id)
		}
	}
	return out
}

// RandomUserOp performs one random, state-aware user operation on chain n.
// Returns the tx result (nil if nothing applicable).
func (e *Engine) RandomUserOp(n *world.Node, u Universe) *world.TxResult {
	ch := e.C.Ch
	nfts, classes := n.NFTSnapshot()
	bals, _ := n.MTSnapshot()
	var ownedNFT []world.NFTInfo
	for _, t := range nfts {
		if e.acct(t.Owner) != nil {
			ownedNFT = append(ownedNFT, t)
		}
	}
	var ownedMT []world.MTBalance
	for _, b := range bals {
		if b.Amount > 0 && e.acct(b.Owner) != nil {
			ownedMT = append(ownedMT, b)
		}
	}
	user := e.W.Users[ch.Int(len(e.W.Users))]
	switch ch.Pick([]int{2, 3, 2, 1, 8, 1, 2, 2, 1, 8}) {
	case 0:
		return e.IssueNFTDenom(n, user, u.NFTClasses[ch.Int(len(u.NFTClasses))])
	case 1:
		if len(classes) == 0 {
			return nil
		}
		return e.MintNFT(n, user, classes[ch.Int(len(classes))], u.NFTIDs[ch.Int(len(u.NFTIDs))], e.W.Users[ch.Int(len(e.W.Users))])
	case 2:
		if len(ownedNFT) == 0 {
			return nil
		}
		t := ownedNFT[ch.Int(len(ownedNFT))]
		return e.TransferNFT(n, e.acct(t.Owner), t.Class, t.ID, e.W.Users[ch.Int(len(e.W.Users))])
	case 3:
		if len(ownedNFT) == 0 {
			return nil
		}
		t := ownedNFT[ch.Int(len(ownedNFT))]
		return e.BurnNFT(n, e.acct(t.Owner), t.Class, t.ID)
	case 4:
		if len(ownedNFT) == 0 {
			return nil
		}
		t := ownedNFT[ch.Int(len(ownedNFT))]
		dest, relay := e.pickRoute(n, u)
		return e.NftTransfer(n, e.acct(t.Owner), t.Class, t.ID, e.pickReceiver(u), dest, relay)
	case 5:
		if u.NoNewMTIDs {
			return nil
		}
		return e.IssueMTDenom(n, user, "mtc")
	case 6:
		if u.NoNewMTIDs {
			return nil
		}
		cls := e.mtClassesOwnedBy(n, user)
		if len(cls) == 0 {
			return nil
		}
		class := cls[ch.Int(len(cls))]
		id := ""
		if mts := n.App.MtKeeper.GetMTs(n.QueryCtx(), class); len(mts) > 0 && ch.Bool(2, 3) {
			id = mts[ch.Int(len(mts))].GetID()
		}
		return e.MintMT(n, user, class, id, u.Amounts[ch.Int(len(u.Amounts))], e.W.Users[ch.Int(len(e.W.Users))])
	case 7:
		if len(ownedMT) == 0 {
			return nil
		}
		b := ownedMT[ch.Int(len(ownedMT))]
		return e.TransferMT(n, e.acct(b.Owner), b.Class, b.ID, e.pickAmount(b.Amount, u), e.W.Users[ch.Int(len(e.W.Users))])
	case 8:
		if len(ownedMT) == 0 {
			return nil
		}
		b := ownedMT[ch.Int(len(ownedMT))]
		return e.BurnMT(n, e.acct(b.Owner), b.Class, b.ID, e.pickAmount(b.Amount, u))
	default:
		if len(ownedMT) == 0 {
			return nil
		}
		b := ownedMT[ch.Int(len(ownedMT))]
		dest, relay := e.pickRoute(n, u)
		return e.MtTransfer(n, e.acct(b.Owner), b.Class, b.ID, e.pickAmount(b.Amount, u), e.pickReceiver(u), dest, relay)
	}
}

func (e *Engine) pickAmount(have uint64, u Universe) uint64 {
	ch := e.C.Ch
	switch ch.Int(4) {
	case 0:
		return have
	case 1:
		if have > 1 {
			return have - 1
		}
		return have
	default:
		a := u.Amounts[ch.Int(len(u.Amounts))]
		if a > have {
			return have
		}
		return a
	}
}
