package model

import (
	"fmt"
	"math/big"
	"sort"

	"tibcsim/world"
)

// MtNode is one multi-token (class,id) on one chain.
type MtNode struct{ Chain, Class, ID string }

func (n MtNode) String() string { return n.Chain + ":" + world.Short(n.Class, 10) + "/" + world.Short(n.ID, 6) }

type MtFlight struct {
	Node   MtNode // the asset on the sending chain
	Amount *big.Int
	Away   bool // escrowed on the sender (true) or burned there (false: going back towards the origin)
	Dest   string
	Sender string
}

// MtModel is the fungible analogue of NftModel: per-edge escrow equations and
// a global supply equation, in arbitrary precision.
type MtModel struct {
	Module     string
	Children   map[MtNode]map[string]MtNode // node -> destination chain -> voucher node there (learnt from observed receives)
	Parent     map[MtNode]MtNode
	Minted     map[MtNode]*big.Int // per native root: units minted natively
	Burned     map[MtNode]*big.Int // per root: units destroyed by explicit user burns of any representation
	UserBurned map[MtNode]*big.Int // per node
	Flights    map[PKey]*MtFlight
	Known      map[MtNode]bool
	lastBal    map[string]map[string]*big.Int // chain -> owner|class|id -> amount
	lastSup    map[string]map[string]*big.Int // chain -> class|id -> supply
	Problems   []NftProblem
}

func NewMtModel(moduleAddr string) *MtModel {
	return &MtModel{Module: moduleAddr, Children: map[MtNode]map[string]MtNode{}, Parent: map[MtNode]MtNode{}, Minted: map[MtNode]*big.Int{},
		Burned: map[MtNode]*big.Int{}, UserBurned: map[MtNode]*big.Int{}, Flights: map[PKey]*MtFlight{}, Known: map[MtNode]bool{},
		lastBal: map[string]map[string]*big.Int{}, lastSup: map[string]map[string]*big.Int{}}
}

func (m *MtModel) problem(sig, format string, args ...interface{}) {
	m.Problems = append(m.Problems, NftProblem{Sig: sig, Detail: fmt.Sprintf(format, args...)})
}

func u(v uint64) *big.Int { return new(big.Int).SetUint64(v) }

func get(mm map[string]*big.Int, k string) *big.Int {
	if v, ok := mm[k]; ok {
		return v
	}
	return new(big.Int)
}

func addTo(mm map[MtNode]*big.Int, k MtNode, v *big.Int) {
	if _, ok := mm[k]; !ok {
		mm[k] = new(big.Int)
	}
	mm[k].Add(mm[k], v)
}

// MtDiff is the change of balances / supplies of one chain by one tx.
type MtDiff struct {
	Bal map[string]*big.Int // owner|class|id -> delta (non-zero only)
	Sup map[string]*big.Int // class|id -> delta
}

func (d *MtDiff) Empty() bool { return len(d.Bal)+len(d.Sup) == 0 }
func (d *MtDiff) String() string {
	var ks []string
	for k, v := range d.Bal {
		ks = append(ks, "bal "+world.Short(k, 70)+" "+v.String())
	}
	for k, v := range d.Sup {
		ks = append(ks, "sup "+world.Short(k, 30)+" "+v.String())
	}
	sort.Strings(ks)
	return fmt.Sprint(ks)
}

func (m *MtModel) Observe(n *world.Node) *MtDiff {
	bals, sups := n.MTSnapshot()
	nb, ns := map[string]*big.Int{}, map[string]*big.Int{}
	for _, b := range bals {
		nb[b.Owner+"|"+b.Class+"|"+b.ID] = u(b.Amount)
	}
	for _, s := range sups {
		ns[s.Class+"|"+s.ID] = u(s.Supply)
	}
	d := &MtDiff{Bal: map[string]*big.Int{}, Sup: map[string]*big.Int{}}
	diff := func(old, now, out map[string]*big.Int) {
		for k, v := range now {
			if dv := new(big.Int).Sub(v, get(old, k)); dv.Sign() != 0 {
				out[k] = dv
			}
		}
		for k, v := range old {
			if _, ok := now[k]; !ok && v.Sign() != 0 {
				out[k] = new(big.Int).Neg(v)
			}
		}
	}
	ob, os := m.lastBal[n.Name], m.lastSup[n.Name]
	if ob == nil {
		ob, os = map[string]*big.Int{}, map[string]*big.Int{}
	}
	diff(ob, nb, d.Bal)
	diff(os, ns, d.Sup)
	m.lastBal[n.Name], m.lastSup[n.Name] = nb, ns
	return d
}

func (m *MtModel) root(n MtNode) MtNode {
	for i := 0; i < 64; i++ {
		p, ok := m.Parent[n]
		if !ok {
			return n
		}
		n = p
	}
	return n
}

// Mint: a user minted `amount` units of a native multi-token.
func (m *MtModel) Mint(node MtNode, amount uint64) {
	m.Known[node] = true
	if _, isVoucher := m.Parent[node]; isVoucher {
		m.problem("C05/user-minted-voucher", "user mint into voucher %s", node)
		return
	}
	addTo(m.Minted, node, u(amount))
}

func (m *MtModel) UserBurn(node MtNode, amount uint64) {
	addTo(m.UserBurned, node, u(amount))
	addTo(m.Burned, m.root(node), u(amount))
}

// Send: successful MsgMtTransfer; the diff tells whether the units were escrowed or burned.
func (m *MtModel) Send(pk PKey, node MtNode, amount uint64, dest, sender string, d *MtDiff) {
	a := u(amount)
	modKey := m.Module + "|" + node.Class + "|" + node.ID
	sndKey := sender + "|" + node.Class + "|" + node.ID
	supKey := node.Class + "|" + node.ID
	f := &MtFlight{Node: node, Amount: a, Dest: dest, Sender: sender}
	switch {
	case amount == 0 && d.Empty():
		f.Away = true // nothing moved; direction is irrelevant for a zero transfer
	case get(d.Bal, modKey).Cmp(a) == 0 && get(d.Bal, sndKey).Cmp(new(big.Int).Neg(a)) == 0 && len(d.Bal) == 2 && len(d.Sup) == 0:
		f.Away = true
	case get(d.Sup, supKey).Cmp(new(big.Int).Neg(a)) == 0 && get(d.Bal, sndKey).Cmp(new(big.Int).Neg(a)) == 0 && len(d.Bal) == 1 && len(d.Sup) == 1:
		f.Away = false
	default:
		m.problem("C05/send-effect", "sending %s units of %s neither escrowed nor burned exactly that amount: %s", a, node, d)
		return
	}
	m.Flights[pk] = f
}

// Recv: successful receive at the destination answered with a success ack.
func (m *MtModel) Recv(pk PKey, chain, receiver string, d *MtDiff) {
	f, ok := m.Flights[pk]
	if !ok {
		if !d.Empty() {
			m.problem("C05/units-without-packet", "%s: receive of %s (not in flight) changed %s", chain, pk, d)
		}
		return
	}
	a := f.Amount
	delete(m.Flights, pk)
	if a.Sign() == 0 {
		return
	}
	if f.Away {
		// a voucher supply on this chain must have grown by exactly a, credited to the receiver
		if len(d.Sup) != 1 || len(d.Bal) != 1 {
			m.problem("C05/receive-effect", "%s: receive of %s (%s units away from origin) changed %s", chain, pk, a, d)
			return
		}
		for k, dv := range d.Sup {
			if dv.Cmp(a) != 0 {
				m.problem("C05/receive-amount", "%s: receive of %s minted %s units, packet carries %s", chain, pk, dv, a)
			}
			var class, id string
			for i := len(k) - 1; i >= 0; i-- {
				if k[i] == '|' {
					class, id = k[:i], k[i+1:]
					break
				}
			}
			child := MtNode{chain, class, id}
			if get(d.Bal, receiver+"|"+class+"|"+id).Cmp(a) != 0 {
				m.problem("C05/receive-credit", "%s: receive of %s did not credit %s units of %s to the receiver: %s", chain, pk, a, child, d)
			}
			if m.Children[f.Node] == nil {
				m.Children[f.Node] = map[string]MtNode{}
			}
			if old, ok := m.Children[f.Node][chain]; ok && old != child {
				m.problem("C05/voucher-class-changed", "%s: units of %s used to arrive as %s, now as %s", chain, f.Node, old, child)
			}
			if p, ok := m.Parent[child]; ok && p != f.Node {
				m.problem("C05/voucher-class-shared", "%s: voucher %s represents both %s and %s", chain, child, p, f.Node)
			}
			if m.Known[child] && m.Parent[child] != f.Node {
				m.problem("C05/voucher-collides-with-native", "%s: voucher %s for %s collides with an existing token", chain, child, f.Node)
			}
			m.Children[f.Node][chain] = child
			m.Parent[child] = f.Node
			m.Known[child] = true
		}
		return
	}
	// going back: the parent of the burned voucher must be unlocked here
	p, ok := m.Parent[f.Node]
	if !ok || p.Chain != chain {
		m.problem("C05/unlock-without-backing", "%s: receive of %s returns %s whose backing is not on this chain (%v)", chain, pk, f.Node, p)
		return
	}
	modKey := m.Module + "|" + p.Class + "|" + p.ID
	rcvKey := receiver + "|" + p.Class + "|" + p.ID
	if !(get(d.Bal, modKey).Cmp(new(big.Int).Neg(a)) == 0 && get(d.Bal, rcvKey).Cmp(a) == 0 && len(d.Bal) == 2 && len(d.Sup) == 0) {
		m.problem("C05/unlock-effect", "%s: receive of %s should unlock %s units of %s to the receiver, changed %s", chain, pk, a, p, d)
	}
}

// Refund: error acknowledgement processed on the source chain.
func (m *MtModel) Refund(pk PKey, chain string, d *MtDiff) {
	f, ok := m.Flights[pk]
	if !ok {
		if !d.Empty() {
			m.problem("C05/refund-without-flight", "%s: error ack of %s (not in flight) changed %s", chain, pk, d)
		}
		return
	}
	delete(m.Flights, pk)
	a := f.Amount
	if a.Sign() == 0 {
		if !d.Empty() {
			m.problem("C05/refund-effect", "%s: refund of zero units changed %s", chain, d)
		}
		return
	}
	modKey := m.Module + "|" + f.Node.Class + "|" + f.Node.ID
	sndKey := f.Sender + "|" + f.Node.Class + "|" + f.Node.ID
	supKey := f.Node.Class + "|" + f.Node.ID
	okAway := get(d.Bal, modKey).Cmp(new(big.Int).Neg(a)) == 0 && get(d.Bal, sndKey).Cmp(a) == 0 && len(d.Bal) == 2 && len(d.Sup) == 0
	okBack := get(d.Sup, supKey).Cmp(a) == 0 && get(d.Bal, sndKey).Cmp(a) == 0 && len(d.Bal) == 1 && len(d.Sup) == 1
	if (f.Away && !okAway) || (!f.Away && !okBack) {
		m.problem("C05/refund-effect", "%s: refund of %s (%s units of %s, away=%v) changed %s", chain, pk, a, f.Node, f.Away, d)
	}
}

// NoChange asserts a tx left all MT balances and supplies alone.
func (m *MtModel) NoChange(chain, what string, d *MtDiff) {
	if !d.Empty() {
		m.problem("C05/unexplained-change", "%s: %s changed %s", chain, what, d)
	}
}

// CheckEquations verifies the escrow equation for every node and the supply
// equation for every native root.
func (m *MtModel) CheckEquations() {
	var nodes []MtNode
	for n := range m.Known {
		nodes = append(nodes, n)
	}
	sort.Slice(nodes, func(i, j int) bool { return nodes[i].String()+nodes[i].Class < nodes[j].String()+nodes[j].Class })
	supply := func(n MtNode) *big.Int { return get(m.lastSup[n.Chain], n.Class+"|"+n.ID) }
	escrow := func(n MtNode) *big.Int { return get(m.lastBal[n.Chain], m.Module+"|"+n.Class+"|"+n.ID) }
	userHeld := func(n MtNode) *big.Int {
		s := new(big.Int)
		suffix := "|" + n.Class + "|" + n.ID
		for k, v := range m.lastBal[n.Chain] {
			if len(k) > len(suffix) && k[len(k)-len(suffix):] == suffix && k[:len(k)-len(suffix)] != m.Module {
				s.Add(s, v)
			}
		}
		return s
	}
	for _, n := range nodes {
		rhs := new(big.Int)
		for _, dest := range world.SortedKeys(m.Children[n]) {
			c := m.Children[n][dest]
			rhs.Add(rhs, supply(c))
			if ub, ok := m.UserBurned[c]; ok {
				rhs.Add(rhs, ub)
			}
		}
		for _, f := range m.Flights {
			if f.Away && f.Node == n {
				rhs.Add(rhs, f.Amount)
			}
			if !f.Away {
				if p, ok := m.Parent[f.Node]; ok && p == n {
					rhs.Add(rhs, f.Amount)
				}
			}
		}
		if escrow(n).Cmp(rhs) != 0 {
			m.problem("C05/escrow-equation", "%s: %s units in escrow, but vouchers in circulation + burned by holders + in flight = %s", n, escrow(n), rhs)
		}
	}
	// supply equation per native root
	held, flight := map[MtNode]*big.Int{}, map[MtNode]*big.Int{}
	for _, n := range nodes {
		addTo(held, m.root(n), userHeld(n))
	}
	for _, f := range m.Flights {
		addTo(flight, m.root(f.Node), f.Amount)
	}
	for _, n := range nodes {
		if _, isVoucher := m.Parent[n]; isVoucher {
			continue
		}
		minted := m.Minted[n]
		if minted == nil {
			continue
		}
		want := new(big.Int).Set(minted)
		if b, ok := m.Burned[n]; ok {
			want.Sub(want, b)
		}
		got := new(big.Int)
		if h, ok := held[n]; ok {
			got.Add(got, h)
		}
		if fl, ok := flight[n]; ok {
			got.Add(got, fl)
		}
		if got.Cmp(want) != 0 {
			m.problem("C05/supply-equation", "%s: minted - burned = %s, user-held over all chains + in flight = %s", n, want, got)
		}
	}
}
