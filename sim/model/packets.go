// Package model holds the small executable reference models the oracles
// compare the implementation against.  They are fed only by observations the
// properties name (tx results and their events), never by keeper internals.
package model

import (
	"crypto/sha256"
	"fmt"

	packettypes "github.com/bianjieai/tibc-go/modules/tibc/core/04-packet/types"

	"tibcsim/world"
)

type PKey struct {
	Src, Dst string
	Seq      uint64
}

func (k PKey) String() string { return fmt.Sprintf("%s->%s#%d", k.Src, k.Dst, k.Seq) }

type Pair struct{ Src, Dst string }

func KeyOf(p packettypes.Packet) PKey {
	return PKey{p.SourceChain, p.DestinationChain, p.Sequence}
}

// Span is the interval of block heights [From, Until) in which an entry exists
// (Until == 0: still there).
type Span struct {
	From, Until int64
}

// LiveAt reports whether the entry is part of the state after block h.
func (s Span) LiveAt(h int64) bool { return s.From <= h && (s.Until == 0 || s.Until > h) }

type Commit struct {
	Span
	Packet   packettypes.Packet
	DataHash [32]byte
}

type Ack struct {
	Span
	Bytes []byte
	// Origin is true when this chain produced the ack itself (destination app or
	// relay refusal) rather than passing it on.
	Origin bool
}

type Receipt struct{ Span }

// ChainPackets is the packet-layer view of one chain.
type ChainPackets struct {
	Name     string
	Commits  map[PKey][]*Commit
	Receipts map[PKey][]*Receipt
	Acks     map[PKey][]*Ack
	Clean    map[Pair][]CleanMark // history of clean points
	RecvOK   map[PKey]int         // successful MsgRecvPacket count
	AckOK    map[PKey]int         // successful MsgAcknowledgement count
	WriteAck map[PKey]int         // write_acknowledgement events
	SendSeq  map[Pair][]uint64    // sequences of send_packet events originated here, in order
}

type CleanMark struct {
	Height int64
	N      uint64
}

func newChainPackets(name string) *ChainPackets {
	return &ChainPackets{Name: name, Commits: map[PKey][]*Commit{}, Receipts: map[PKey][]*Receipt{}, Acks: map[PKey][]*Ack{},
		Clean: map[Pair][]CleanMark{}, RecvOK: map[PKey]int{}, AckOK: map[PKey]int{}, WriteAck: map[PKey]int{}, SendSeq: map[Pair][]uint64{}}
}

// Packets is the model over all chains.
type Packets struct {
	Chains map[string]*ChainPackets
	// Problems found while folding events (e.g. a commitment set twice); the
	// properties that care turn them into violations.
	Problems []string
}

func NewPackets(names ...string) *Packets {
	p := &Packets{Chains: map[string]*ChainPackets{}}
	for _, n := range names {
		p.Chains[n] = newChainPackets(n)
	}
	return p
}

func (m *Packets) On(name string) *ChainPackets {
	c, ok := m.Chains[name]
	if !ok {
		c = newChainPackets(name)
		m.Chains[name] = c
	}
	return c
}

// LiveCommit returns the commitment of k on this chain in the state after block h.
func (c *ChainPackets) LiveCommit(k PKey, h int64) *Commit {
	for _, x := range c.Commits[k] {
		if x.LiveAt(h) {
			return x
		}
	}
	return nil
}

func (c *ChainPackets) LiveAck(k PKey, h int64) *Ack {
	for _, x := range c.Acks[k] {
		if x.LiveAt(h) {
			return x
		}
	}
	return nil
}

func (c *ChainPackets) LiveReceipt(k PKey, h int64) bool {
	for _, x := range c.Receipts[k] {
		if x.LiveAt(h) {
			return true
		}
	}
	return false
}

// CleanPointAt returns the clean point of (src,dst) after block h.
func (c *ChainPackets) CleanPointAt(p Pair, h int64) uint64 {
	var n uint64
	for _, m := range c.Clean[p] {
		if m.Height <= h {
			n = m.N
		}
	}
	return n
}

func (c *ChainPackets) CleanPoint(p Pair) uint64 {
	ms := c.Clean[p]
	if len(ms) == 0 {
		return 0
	}
	return ms[len(ms)-1].N
}

// EverReceived reports whether k was ever successfully received on this chain.
func (c *ChainPackets) EverReceived(k PKey) bool { return len(c.Receipts[k]) > 0 }

// OnBlock folds the events of the successful txs of a block.
func (m *Packets) OnBlock(n *world.Node, rec *world.BlockRecord) {
	c := m.On(n.Name)
	h := rec.Height
	for _, r := range rec.Results {
		if !r.OK() {
			continue
		}
		for _, e := range world.ParsePacketEvents(r.Events) {
			k := KeyOf(e.Packet)
			switch e.Type {
			case packettypes.EventTypeSendPacket:
				if old := c.LiveCommit(k, h); old != nil {
					m.Problems = append(m.Problems, fmt.Sprintf("%s: commitment %s set again at %d (first %d)", n.Name, k, h, old.From))
					old.Until = h
				}
				c.Commits[k] = append(c.Commits[k], &Commit{Span: Span{From: h}, Packet: e.Packet, DataHash: sha256.Sum256(e.Packet.Data)})
				if e.Packet.SourceChain == n.Name {
					pr := Pair{k.Src, k.Dst}
					c.SendSeq[pr] = append(c.SendSeq[pr], k.Seq)
				}
			case packettypes.EventTypeRecvPacket:
				c.Receipts[k] = append(c.Receipts[k], &Receipt{Span{From: h}})
				c.RecvOK[k]++
			case packettypes.EventTypeWriteAck:
				c.WriteAck[k]++
				if old := c.LiveAck(k, h); old != nil {
					m.Problems = append(m.Problems, fmt.Sprintf("%s: acknowledgement %s written again at %d (first %d)", n.Name, k, h, old.From))
					old.Until = h
				}
				origin := e.Packet.DestinationChain == n.Name || CountType(r, packettypes.EventTypeAcknowledgePacket) == 0
				c.Acks[k] = append(c.Acks[k], &Ack{Span: Span{From: h}, Bytes: e.Ack, Origin: origin})
			case packettypes.EventTypeAcknowledgePacket:
				c.AckOK[k]++
				if cm := c.LiveCommit(k, h); cm != nil {
					cm.Until = h
				}
			case packettypes.EventTypeSendCleanPacket, packettypes.EventTypeRecvCleanPacket:
				pr := Pair{k.Src, k.Dst}
				old := c.CleanPoint(pr)
				// a relay chain emits both recv_clean and send_clean in one tx
				if len(c.Clean[pr]) > 0 && c.Clean[pr][len(c.Clean[pr])-1].Height == h && old == k.Seq {
					continue
				}
				c.Clean[pr] = append(c.Clean[pr], CleanMark{Height: h, N: k.Seq})
				for kk, rs := range c.Receipts {
					if kk.Src == k.Src && kk.Dst == k.Dst && kk.Seq <= k.Seq {
						for _, x := range rs {
							if x.Until == 0 {
								x.Until = h
							}
						}
					}
				}
				for kk, as := range c.Acks {
					if kk.Src == k.Src && kk.Dst == k.Dst && kk.Seq <= k.Seq {
						for _, x := range as {
							if x.Until == 0 {
								x.Until = h
							}
						}
					}
				}
			}
		}
	}
}

func CountType(r *world.TxResult, typ string) int { return world.CountEvents(r.Events, typ) }
