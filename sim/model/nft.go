package model

import (
	"fmt"
	"sort"

	"tibcsim/world"
)

// NftKey names a concrete NFT on a chain.
type NftKey struct{ Chain, Class, ID string }

func (k NftKey) String() string { return k.Chain + ":" + k.Class + "/" + k.ID }

// NftFlight is a packet in flight carrying an NFT identity.
type NftFlight struct {
	Identity int
	Locked   *NftKey // escrowed instance on the sending chain (nil: the voucher was burned)
	Sender   string
	From     NftKey // what was sent
}

// NftModel gives every natively minted NFT an identity and follows it through
// observed protocol steps (lock -> packet -> voucher ...), never through class
// path arithmetic.
type NftModel struct {
	Rep      map[NftKey]int // identity represented by each existing concrete NFT (user held or escrowed)
	Alive    map[int]bool
	Born     map[int]NftKey
	Flights  map[PKey]*NftFlight
	last     map[string]map[NftKey]string // chain -> NFT -> owner
	Module   string                       // escrow (module) account address
	next     int
	Problems []NftProblem
}

type NftProblem struct {
	Sig    string
	Detail string
}

func NewNftModel(moduleAddr string) *NftModel {
	return &NftModel{Rep: map[NftKey]int{}, Alive: map[int]bool{}, Born: map[int]NftKey{}, Flights: map[PKey]*NftFlight{},
		last: map[string]map[NftKey]string{}, Module: moduleAddr}
}

func (m *NftModel) problem(sig, format string, args ...interface{}) {
	m.Problems = append(m.Problems, NftProblem{Sig: sig, Detail: fmt.Sprintf(format, args...)})
}

func snapshotOf(n *world.Node) map[NftKey]string {
	out := map[NftKey]string{}
	ns, _ := n.NFTSnapshot()
	for _, t := range ns {
		out[NftKey{n.Name, t.Class, t.ID}] = t.Owner
	}
	return out
}

// NftDiff is what one tx changed on one chain.
type NftDiff struct {
	Appeared    []NftKey
	Disappeared []NftKey
	Moved       []NftKey // owner changed
	Before      map[NftKey]string
	After       map[NftKey]string
}

func (d *NftDiff) Empty() bool { return len(d.Appeared)+len(d.Disappeared)+len(d.Moved) == 0 }
func (d *NftDiff) String() string {
	return fmt.Sprintf("appeared=%v disappeared=%v moved=%v", d.Appeared, d.Disappeared, d.Moved)
}

// Observe computes the diff of chain n against the last observation and stores the new snapshot.
func (m *NftModel) Observe(n *world.Node) *NftDiff {
	now := snapshotOf(n)
	before := m.last[n.Name]
	if before == nil {
		before = map[NftKey]string{}
	}
	d := &NftDiff{Before: before, After: now}
	for k, o := range now {
		if bo, ok := before[k]; !ok {
			d.Appeared = append(d.Appeared, k)
		} else if bo != o {
			d.Moved = append(d.Moved, k)
		}
	}
	for k := range before {
		if _, ok := now[k]; !ok {
			d.Disappeared = append(d.Disappeared, k)
		}
	}
	for _, l := range []*[]NftKey{&d.Appeared, &d.Disappeared, &d.Moved} {
		s := *l
		sort.Slice(s, func(i, j int) bool { return s[i].String() < s[j].String() })
	}
	m.last[n.Name] = now
	return d
}

// Context of the tx that produced a diff.
const (
	NftCtxMint = iota
	NftCtxLocalSend
	NftCtxBurn
	NftCtxXfer       // successful MsgNftTransfer; needs packet key + sent NFT
	NftCtxRecvOK     // successful receive at the destination answered with a success ack
	NftCtxRefund     // error ack processed on the source chain
	NftCtxNoTokenTx  // anything that must not touch NFTs
)

// Apply interprets a diff under a context.  pk/sent are used by the transfer contexts.
func (m *NftModel) Apply(ctx int, chain string, d *NftDiff, pk PKey, sent NftKey, sender, receiver string) {
	switch ctx {
	case NftCtxMint:
		if len(d.Appeared) != 1 || len(d.Disappeared)+len(d.Moved) != 0 {
			m.problem("C04/unexplained-change/mint", "%s: a mint changed %s", chain, d)
		}
		for _, k := range d.Appeared {
			m.next++
			m.Rep[k] = m.next
			m.Alive[m.next] = true
			m.Born[m.next] = k
		}
	case NftCtxLocalSend:
		if len(d.Appeared)+len(d.Disappeared) != 0 || len(d.Moved) > 1 {
			m.problem("C04/unexplained-change/local-transfer", "%s: a local transfer changed %s", chain, d)
		}
	case NftCtxBurn:
		if len(d.Disappeared) != 1 || len(d.Appeared)+len(d.Moved) != 0 {
			m.problem("C04/unexplained-change/burn", "%s: a burn changed %s", chain, d)
		}
		for _, k := range d.Disappeared {
			if id, ok := m.Rep[k]; ok {
				delete(m.Rep, k)
				m.Alive[id] = false // the holder destroyed it
			}
		}
	case NftCtxXfer:
		id, known := m.Rep[sent]
		if !known {
			m.problem("C04/unknown-nft-sent", "%s: transfer of %s which the model never saw minted", chain, sent)
			return
		}
		f := &NftFlight{Identity: id, Sender: sender, From: sent}
		switch {
		case len(d.Moved) == 1 && d.Moved[0] == sent && d.After[sent] == m.Module && len(d.Appeared)+len(d.Disappeared) == 0:
			k := sent
			f.Locked = &k
		case len(d.Disappeared) == 1 && d.Disappeared[0] == sent && len(d.Appeared)+len(d.Moved) == 0:
			delete(m.Rep, sent)
		default:
			m.problem("C04/send-effect", "%s: sending %s neither escrowed nor burned exactly that NFT: %s", chain, sent, d)
			return
		}
		if _, dup := m.Flights[pk]; dup {
			m.problem("C04/packet-key-reused", "packet %s already in flight", pk)
		}
		m.Flights[pk] = f
	case NftCtxRecvOK:
		f, ok := m.Flights[pk]
		if !ok {
			if !d.Empty() {
				m.problem("C04/voucher-without-packet", "%s: receive of %s (not a packet in flight) changed %s", chain, pk, d)
			}
			return
		}
		switch {
		case len(d.Appeared) == 1 && len(d.Disappeared)+len(d.Moved) == 0:
			k := d.Appeared[0]
			if d.After[k] != receiver {
				m.problem("C04/voucher-to-wrong-owner", "%s: voucher %s for %s minted to %s, receiver is %s", chain, k, pk, d.After[k], receiver)
			}
			m.Rep[k] = f.Identity
		case len(d.Moved) == 1 && len(d.Appeared)+len(d.Disappeared) == 0:
			k := d.Moved[0]
			if d.Before[k] != m.Module {
				m.problem("C04/receive-moved-user-nft", "%s: receive of %s took %s from %s", chain, pk, k, d.Before[k])
			} else if m.Rep[k] != f.Identity {
				m.problem("C04/escrow-release-wrong-identity", "%s: receive of %s (carrying identity #%d born as %s) released escrowed %s which represents identity #%d born as %s",
					chain, pk, f.Identity, m.Born[f.Identity], k, m.Rep[k], m.Born[m.Rep[k]])
				// the packet's identity ends up represented by the released NFT as far as holders go
			}
			if d.After[k] != receiver {
				m.problem("C04/unlock-to-wrong-owner", "%s: %s released to %s, receiver is %s", chain, k, d.After[k], receiver)
			}
		default:
			m.problem("C04/receive-effect", "%s: successful receive of %s changed %s", chain, pk, d)
		}
		delete(m.Flights, pk)
	case NftCtxRefund:
		f, ok := m.Flights[pk]
		if !ok {
			if !d.Empty() {
				m.problem("C04/refund-without-flight", "%s: error ack of %s (not in flight) changed %s", chain, pk, d)
			}
			return
		}
		switch {
		case f.Locked != nil && len(d.Moved) == 1 && d.Moved[0] == *f.Locked && len(d.Appeared)+len(d.Disappeared) == 0:
			if d.After[*f.Locked] != f.Sender {
				m.problem("C04/refund-to-wrong-owner", "%s: refund of %s went to %s, sender is %s", chain, pk, d.After[*f.Locked], f.Sender)
			}
		case f.Locked == nil && len(d.Appeared) == 1 && len(d.Moved)+len(d.Disappeared) == 0:
			k := d.Appeared[0]
			m.Rep[k] = f.Identity
			if d.After[k] != f.Sender {
				m.problem("C04/refund-to-wrong-owner", "%s: refund of %s went to %s, sender is %s", chain, pk, d.After[k], f.Sender)
			}
		case len(d.Moved) == 1 && d.Before[d.Moved[0]] == m.Module:
			m.problem("C04/escrow-release-wrong-identity", "%s: error ack of %s released escrowed %s, which that packet did not lock (it locked %v)", chain, pk, d.Moved[0], f.Locked)
		default:
			m.problem("C04/refund-effect", "%s: error ack of %s changed %s (locked %v)", chain, pk, d, f.Locked)
		}
		delete(m.Flights, pk)
	case NftCtxNoTokenTx:
		if !d.Empty() {
			m.problem("C04/unexplained-change/other", "%s: a tx that must not touch NFTs changed %s", chain, d)
		}
	}
}

// CheckConservation: every live identity has exactly one holder: a user
// account on one chain or a packet in flight.
func (m *NftModel) CheckConservation() {
	holders := map[int][]string{}
	for k, id := range m.Rep {
		owner := ""
		if snap := m.last[k.Chain]; snap != nil {
			owner = snap[k]
		}
		if owner == "" || owner == m.Module {
			continue
		}
		holders[id] = append(holders[id], k.String()+"@"+owner[len(owner)-6:])
	}
	for pk, f := range m.Flights {
		holders[f.Identity] = append(holders[f.Identity], "in-flight:"+pk.String())
	}
	ids := make([]int, 0, len(m.Alive))
	for id := range m.Alive {
		ids = append(ids, id)
	}
	sort.Ints(ids)
	for _, id := range ids {
		h := holders[id]
		sort.Strings(h)
		switch {
		case m.Alive[id] && len(h) > 1:
			m.problem("C04/duplicate-holder", "identity #%d (born as %s) has %d holders: %v", id, m.Born[id], len(h), h)
		case m.Alive[id] && len(h) == 0:
			m.problem("C04/lost", "identity #%d (born as %s) has no holder and is not in flight", id, m.Born[id])
		case !m.Alive[id] && len(h) > 0:
			m.problem("C04/burned-but-held", "identity #%d (born as %s) was burned by its holder but is still held: %v", id, m.Born[id], h)
		}
	}
}
