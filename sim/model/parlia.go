package model

// ParliaModel is the reference model of property C17: what a BSC (Parlia)
// light client that follows exactly one hash-linked, correctly sealed header
// chain must accept.  It is written from the property statement and the Parlia
// consensus rules; it never calls the implementation's verification code (it
// only uses the wire type bsctypes.Header as a data container and go-ethereum
// primitives: RLP, keccak, secp256k1 recovery).
//
// Rules (number = height of the submitted header, N = size of the validator
// set in force for that height, "latest" = last accepted header):
//
//	R1 direct child     number == latest.number+1 and parentHash == hash(latest)
//	R2 structure        extra = 32 vanity bytes ++ validator bytes ++ 65 seal bytes;
//	                    mixDigest == 0; uncleHash == keccak(rlp([]))
//	R3 validator bytes  non-epoch block: none; epoch block (number % epoch == 0):
//	                    a multiple of 20 bytes
//	R4 gas              gasLimit <= 2^63-1, gasLimit >= 5000, gasUsed <= gasLimit,
//	                    |gasLimit - parent.gasLimit| < parent.gasLimit/256
//	                    (the exact bound itself is left open by the statement)
//	R5 seal             signer = ecrecover(seal, keccak(rlp(chainId, header fields
//	                    with extra stripped of the seal))); signer == coinbase;
//	                    signer in the set in force; signer sealed none of the
//	                    blocks number-floor(N/2) .. number-1
//	R6 difficulty       2 if sorted(set)[number % N] == signer, else 1
//	R7 rotation         the set listed in epoch block E becomes the set in force
//	                    once block E+floor(N/2) has been accepted (N = size of the
//	                    set in force at E): block E+floor(N/2) is the last one
//	                    checked against the old set (as in the Parlia reference
//	                    implementation, where the snapshot *after* that block
//	                    carries the new set)
//
// Open points (verdict "unconstrained", nothing asserted):
//   - gas limit delta exactly equal to the bound,
//   - header time not after the parent's / far in the future (not in the statement),
//   - an epoch block listing no validator at all,
//   - a height whose revision number differs from the latest header's (not sealed),
//   - a signer that sealed one of the preceding floor(N/2) blocks, but whose entry
//     the Parlia reference snapshot has already dropped because the set in force
//     was smaller when that block was processed (only after the set has grown).

import (
	"bytes"
	"fmt"
	"math/big"
	"sort"

	"github.com/ethereum/go-ethereum/common"
	ethtypes "github.com/ethereum/go-ethereum/core/types"
	"github.com/ethereum/go-ethereum/crypto"
	"github.com/ethereum/go-ethereum/rlp"

	bsctypes "github.com/bianjieai/tibc-go/modules/tibc/light-clients/08-bsc/types"
)

const (
	ParliaVanity   = 32
	ParliaSeal     = 65
	ParliaAddrLen  = 20
	parliaGasDiv   = 256
	parliaMinGas   = 5000
	parliaGasCap   = uint64(0x7fffffffffffffff)
	ParliaInTurn   = 2
	ParliaNoTurn   = 1
	parliaHashLen  = 32
	parliaBloomLen = 256
	parliaNonceLen = 8
)

// EmptyUncleHash is keccak256(rlp([])), the only uncle hash a PoA block may carry.
var EmptyUncleHash = common.HexToHash("0x1dcc4de8dec75d7aab85b567b6ccd41ad312451b948a7413f0a142fd40d49347")

type ParliaVerdict int

const (
	ParliaValid ParliaVerdict = iota
	ParliaInvalid
	ParliaOpen // the statement does not constrain the outcome
)

func (v ParliaVerdict) String() string {
	switch v {
	case ParliaValid:
		return "valid"
	case ParliaInvalid:
		return "invalid"
	}
	return "open"
}

// ParliaResult is the model's decision about one submitted header.
type ParliaResult struct {
	Verdict  ParliaVerdict
	Reason   string // first violated rule (invalid) or first open point (open)
	Signer   common.Address
	SignerOK bool // a signer could be recovered from the seal
	InTurn   bool
}

type ParliaModel struct {
	ChainID uint64
	Epoch   uint64

	Latest     *bsctypes.Header
	LatestHash common.Hash

	InForce     []common.Address // sorted ascending
	Pending     []common.Address // as listed in the last epoch block
	HasPending  bool
	AnnouncedAt uint64
	ApplyAt     uint64

	// Signers is everything the model knows about who sealed which height.
	Signers map[uint64]common.Address
	// Recents mirrors the Parlia reference snapshot's recents map (entries are
	// dropped with the limit of the set in force when a block is processed).
	Recents map[uint64]common.Address

	Rotations        int // announced sets that became the set in force
	RotationsChanged int // ... and differed from the previous set
}

func NewParliaModel(chainID, epoch uint64) *ParliaModel {
	return &ParliaModel{ChainID: chainID, Epoch: epoch, Signers: map[uint64]common.Address{}, Recents: map[uint64]common.Address{}}
}

// Init sets the trusted starting point: an epoch header, the set in force for
// the block after it and the sealers of the last floor(N/2)+1 heights.
func (m *ParliaModel) Init(h *bsctypes.Header, inForce []common.Address, signers map[uint64]common.Address) error {
	number := h.Height.RevisionHeight
	if m.Epoch == 0 || number%m.Epoch != 0 {
		return fmt.Errorf("parlia model: start height %d is not an epoch block (epoch %d)", number, m.Epoch)
	}
	m.Latest = CloneBscHeader(h)
	m.LatestHash = ParliaBlockHash(h)
	m.InForce = SortedAddrs(inForce)
	for k, v := range signers {
		m.Signers[k] = v
		m.Recents[k] = v
	}
	vals, ok := ParliaListedValidators(h.Extra)
	if !ok {
		return fmt.Errorf("parlia model: start header lists a malformed validator set")
	}
	m.announce(number, vals)
	m.maybeRotate(number)
	return nil
}

func (m *ParliaModel) Clone() *ParliaModel {
	c := *m
	c.Latest = CloneBscHeader(m.Latest)
	c.InForce = append([]common.Address(nil), m.InForce...)
	c.Pending = append([]common.Address(nil), m.Pending...)
	c.Signers = make(map[uint64]common.Address, len(m.Signers))
	for k, v := range m.Signers {
		c.Signers[k] = v
	}
	c.Recents = make(map[uint64]common.Address, len(m.Recents))
	for k, v := range m.Recents {
		c.Recents[k] = v
	}
	return &c
}

func (m *ParliaModel) Number() uint64 { return m.Latest.Height.RevisionHeight }

func (m *ParliaModel) IsEpoch(number uint64) bool { return number%m.Epoch == 0 }

func (m *ParliaModel) IsInForce(a common.Address) bool {
	for _, v := range m.InForce {
		if v == a {
			return true
		}
	}
	return false
}

// InTurnAt returns the validator whose turn block `number` is.
func (m *ParliaModel) InTurnAt(number uint64) (common.Address, bool) {
	if len(m.InForce) == 0 {
		return common.Address{}, false
	}
	return m.InForce[number%uint64(len(m.InForce))], true
}

// SealedRecently: did a seal one of the blocks number-floor(N/2) .. number-1 ?
func (m *ParliaModel) SealedRecently(a common.Address, number uint64) bool {
	half := uint64(len(m.InForce) / 2)
	for k := uint64(1); k <= half && k <= number; k++ {
		if s, ok := m.Signers[number-k]; ok && s == a {
			return true
		}
	}
	return false
}

// inReferenceRecents: would the Parlia reference snapshot still hold an entry
// for a inside the window?
func (m *ParliaModel) inReferenceRecents(a common.Address, number uint64) bool {
	limit := uint64(len(m.InForce)/2 + 1)
	for seen, s := range m.Recents {
		if s == a && seen+limit > number {
			return true
		}
	}
	return false
}

// Eligible lists the validators that may seal block `number` (sorted).
func (m *ParliaModel) Eligible(number uint64) []common.Address {
	var out []common.Address
	for _, v := range m.InForce {
		if !m.SealedRecently(v, number) {
			out = append(out, v)
		}
	}
	return out
}

// Check decides a submitted header against the current state (no state change).
func (m *ParliaModel) Check(h *bsctypes.Header) ParliaResult {
	res := ParliaResult{}
	var invalid, open []string
	bad := func(r string) { invalid = append(invalid, r) }
	number := h.Height.RevisionHeight
	parent := m.Latest

	if !canonicalLengths(h) {
		// never generated; the wire type allows it, Ethereum's header type does not
		return ParliaResult{Verdict: ParliaOpen, Reason: "field-length"}
	}
	// R2 structure
	if len(h.Extra) < ParliaVanity+ParliaSeal {
		return ParliaResult{Verdict: ParliaInvalid, Reason: "extra-short"}
	}
	if !bytes.Equal(h.MixDigest, make([]byte, parliaHashLen)) {
		bad("mix-digest")
	}
	if common.BytesToHash(h.UncleHash) != EmptyUncleHash {
		bad("uncle-hash")
	}
	// R1 direct child
	if number != parent.Height.RevisionHeight+1 {
		bad("not-child-number")
	} else if common.BytesToHash(h.ParentHash) != m.LatestHash {
		bad("not-child-parent-hash")
	}
	// R3 validator bytes
	vb := len(h.Extra) - ParliaVanity - ParliaSeal
	if !m.IsEpoch(number) {
		if vb != 0 {
			bad("validators-on-non-epoch")
		}
	} else {
		if vb%ParliaAddrLen != 0 {
			bad("validators-length")
		} else if vb == 0 {
			open = append(open, "epoch-no-validators")
		}
	}
	// R4 gas
	if h.GasLimit > parliaGasCap {
		bad("gas-limit-cap")
	} else {
		if h.GasLimit < parliaMinGas {
			bad("gas-limit-min")
		}
		if h.GasUsed > h.GasLimit {
			bad("gas-used")
		}
		var diff uint64
		if h.GasLimit > parent.GasLimit {
			diff = h.GasLimit - parent.GasLimit
		} else {
			diff = parent.GasLimit - h.GasLimit
		}
		bound := parent.GasLimit / parliaGasDiv
		if diff > bound {
			bad("gas-limit-delta")
		} else if diff == bound {
			open = append(open, "gas-limit-at-bound")
		}
	}
	// the revision part of the height is neither sealed nor mentioned by the statement
	if h.Height.RevisionNumber != parent.Height.RevisionNumber {
		open = append(open, "revision-number")
	}
	// time: not part of the statement
	if h.Time <= parent.Time {
		open = append(open, "time-not-after-parent")
	} else if h.Time > parent.Time+86400 {
		open = append(open, "time-far-future")
	}
	// R5 seal
	signer, err := ParliaRecoverSigner(h, m.ChainID)
	if err != nil {
		bad("seal-unrecoverable")
	} else {
		res.Signer, res.SignerOK = signer, true
		switch {
		case signer != common.BytesToAddress(h.Coinbase):
			bad("coinbase")
		case !m.IsInForce(signer):
			bad("non-validator")
		default:
			strict := m.SealedRecently(signer, number)
			ref := m.inReferenceRecents(signer, number)
			if ref {
				bad("recent-signer")
			} else if strict {
				open = append(open, "recent-signer-dropped-after-growth")
			}
			// R6 difficulty
			turn, _ := m.InTurnAt(number)
			res.InTurn = turn == signer
			want := uint64(ParliaNoTurn)
			if res.InTurn {
				want = ParliaInTurn
			}
			if h.Difficulty != want {
				bad("difficulty")
			}
		}
	}
	switch {
	case len(invalid) > 0:
		res.Verdict, res.Reason = ParliaInvalid, invalid[0]
	case len(open) > 0:
		res.Verdict, res.Reason = ParliaOpen, open[0]
	default:
		res.Verdict = ParliaValid
	}
	return res
}

// Apply makes h the latest header (call it when the client accepted h).
func (m *ParliaModel) Apply(h *bsctypes.Header, signer common.Address, signerKnown bool) {
	number := h.Height.RevisionHeight
	n := len(m.InForce)
	// reference snapshot bookkeeping: drop the entry that leaves the window,
	// then record the sealer
	if limit := uint64(n/2 + 1); number >= limit {
		delete(m.Recents, number-limit)
	}
	if signerKnown {
		m.Recents[number] = signer
		m.Signers[number] = signer
	} else {
		delete(m.Recents, number)
		delete(m.Signers, number)
	}
	m.Latest = CloneBscHeader(h)
	m.LatestHash = ParliaBlockHash(h)
	if m.IsEpoch(number) {
		if vals, ok := ParliaListedValidators(h.Extra); ok {
			m.announce(number, vals)
		}
	}
	m.maybeRotate(number)
}

func (m *ParliaModel) announce(number uint64, vals []common.Address) {
	m.Pending = vals
	m.HasPending = true
	m.AnnouncedAt = number
	m.ApplyAt = number + uint64(len(m.InForce)/2)
}

func (m *ParliaModel) maybeRotate(number uint64) {
	if !m.HasPending || number != m.ApplyAt {
		return
	}
	newVals := SortedAddrs(m.Pending)
	oldLimit := len(m.InForce)/2 + 1
	newLimit := len(newVals)/2 + 1
	if newLimit < oldLimit {
		for i := 0; i < oldLimit-newLimit; i++ {
			if d := uint64(newLimit) + uint64(i); number >= d {
				delete(m.Recents, number-d)
			}
		}
	}
	if !sameAddrs(m.InForce, newVals) {
		m.RotationsChanged++
	}
	m.InForce = newVals
	m.HasPending = false
	m.Rotations++
}

// ---- helpers -------------------------------------------------------------

func canonicalLengths(h *bsctypes.Header) bool {
	return len(h.ParentHash) == parliaHashLen && len(h.UncleHash) == parliaHashLen && len(h.Coinbase) == ParliaAddrLen &&
		len(h.Root) == parliaHashLen && len(h.TxHash) == parliaHashLen && len(h.ReceiptHash) == parliaHashLen &&
		len(h.Bloom) == parliaBloomLen && len(h.MixDigest) == parliaHashLen && len(h.Nonce) == parliaNonceLen
}

// GethHeader converts the wire header into go-ethereum's header type.
func GethHeader(h *bsctypes.Header) *ethtypes.Header {
	var nonce ethtypes.BlockNonce
	copy(nonce[:], h.Nonce)
	return &ethtypes.Header{
		ParentHash:  common.BytesToHash(h.ParentHash),
		UncleHash:   common.BytesToHash(h.UncleHash),
		Coinbase:    common.BytesToAddress(h.Coinbase),
		Root:        common.BytesToHash(h.Root),
		TxHash:      common.BytesToHash(h.TxHash),
		ReceiptHash: common.BytesToHash(h.ReceiptHash),
		Bloom:       ethtypes.BytesToBloom(h.Bloom),
		Difficulty:  new(big.Int).SetUint64(h.Difficulty),
		Number:      new(big.Int).SetUint64(h.Height.RevisionHeight),
		GasLimit:    h.GasLimit,
		GasUsed:     h.GasUsed,
		Time:        h.Time,
		Extra:       h.Extra,
		MixDigest:   common.BytesToHash(h.MixDigest),
		Nonce:       nonce,
	}
}

// ParliaBlockHash is the Ethereum block hash: keccak256 of the RLP of the 15 header fields.
func ParliaBlockHash(h *bsctypes.Header) common.Hash { return GethHeader(h).Hash() }

// ParliaSealHash is the hash a Parlia validator signs: keccak256(rlp([chainId,
// parentHash, uncleHash, coinbase, root, txHash, receiptHash, bloom,
// difficulty, number, gasLimit, gasUsed, time, extra[:len-65], mixDigest, nonce])).
func ParliaSealHash(h *bsctypes.Header, chainID uint64) (common.Hash, error) {
	if len(h.Extra) < ParliaSeal {
		return common.Hash{}, fmt.Errorf("extra too short")
	}
	g := GethHeader(h)
	bz, err := rlp.EncodeToBytes([]interface{}{
		new(big.Int).SetUint64(chainID),
		g.ParentHash, g.UncleHash, g.Coinbase, g.Root, g.TxHash, g.ReceiptHash, g.Bloom,
		g.Difficulty, g.Number, g.GasLimit, g.GasUsed, g.Time,
		g.Extra[:len(g.Extra)-ParliaSeal],
		g.MixDigest, g.Nonce,
	})
	if err != nil {
		return common.Hash{}, err
	}
	return crypto.Keccak256Hash(bz), nil
}

// ParliaRecoverSigner recovers the sealer's address.
func ParliaRecoverSigner(h *bsctypes.Header, chainID uint64) (common.Address, error) {
	sh, err := ParliaSealHash(h, chainID)
	if err != nil {
		return common.Address{}, err
	}
	pub, err := crypto.SigToPub(sh[:], h.Extra[len(h.Extra)-ParliaSeal:])
	if err != nil {
		return common.Address{}, err
	}
	return crypto.PubkeyToAddress(*pub), nil
}

// ParliaListedValidators parses the validator bytes of an extra field.
func ParliaListedValidators(extra []byte) ([]common.Address, bool) {
	if len(extra) < ParliaVanity+ParliaSeal {
		return nil, false
	}
	vb := extra[ParliaVanity : len(extra)-ParliaSeal]
	if len(vb)%ParliaAddrLen != 0 {
		return nil, false
	}
	out := make([]common.Address, 0, len(vb)/ParliaAddrLen)
	for i := 0; i+ParliaAddrLen <= len(vb); i += ParliaAddrLen {
		out = append(out, common.BytesToAddress(vb[i:i+ParliaAddrLen]))
	}
	return out, true
}

// SortedAddrs returns the distinct addresses in ascending order.
func SortedAddrs(in []common.Address) []common.Address {
	out := append([]common.Address(nil), in...)
	sort.Slice(out, func(i, j int) bool { return bytes.Compare(out[i][:], out[j][:]) < 0 })
	w := 0
	for i, a := range out {
		if i == 0 || a != out[i-1] {
			out[w] = a
			w++
		}
	}
	return out[:w]
}

func sameAddrs(a, b []common.Address) bool {
	if len(a) != len(b) {
		return false
	}
	for i := range a {
		if a[i] != b[i] {
			return false
		}
	}
	return true
}

// CloneBscHeader deep-copies a wire header.
func CloneBscHeader(h *bsctypes.Header) *bsctypes.Header {
	c := *h
	cp := func(b []byte) []byte {
		if b == nil {
			return nil
		}
		return append([]byte{}, b...)
	}
	c.ParentHash, c.UncleHash, c.Coinbase, c.Root = cp(h.ParentHash), cp(h.UncleHash), cp(h.Coinbase), cp(h.Root)
	c.TxHash, c.ReceiptHash, c.Bloom, c.Extra = cp(h.TxHash), cp(h.ReceiptHash), cp(h.Bloom), cp(h.Extra)
	c.MixDigest, c.Nonce = cp(h.MixDigest), cp(h.Nonce)
	return &c
}
