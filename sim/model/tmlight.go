package model

// TmLightModel: reference model of the Tendermint light-client update rule
// (property C07), written from the property statement and the Tendermint
// light-client verification spec ("skipping verification", trusting period
// model), with exact integer/rational arithmetic (math/big).  It does not use
// cometbft's light package nor ValidatorSet.VerifyCommit*; from cometbft it only
// uses encodings (header hash, canonical vote sign bytes, the Merkle hash of a
// validator list) and the ed25519 primitive.
//
// The rule, for an update (header H with commit C, supplied validator set V,
// trusted height t, supplied trusted validators TV) submitted at host time
// `now` to a client with parameters (trust level p/q, trusting period TP,
// clock drift D) that stores consensus states S[height] = (time, appHash,
// nextValsHash) and a latest height L:
//
//	 1 client not expired            S[L].time + TP > now
//	 2 trusted state stored          t in S
//	 3 trusted validators committed  hash(TV) == S[t].nextValsHash
//	 4 same revision                 rev(H) == rev(t)   (and H is a header of the tracked chain)
//	 5 newer                         H.height > t.height
//	 6 time moves forward            H.time > S[t].time
//	 7 not from the future           H.time < now + D
//	 8 trusted state still trusted   S[t].time + TP > now
//	 9 own validator set             H.validatorsHash == hash(V)
//	10 commit is for H               C.blockID.hash == hash(H), C.height == H.height, one entry per validator of V
//	11 own quorum                    sum of V-power of valid commit signatures   > 2/3 · total(V)
//	12 adjacent  (H.height == t+1):  H.validatorsHash == S[t].nextValsHash
//	   skipping  (otherwise):        sum of TV-power of valid commit signatures by members of TV > p/q · total(TV)
//
// accept ⇔ all hold.  Every condition evaluates to yes / no / open; "open" is
// used exactly where the statement leaves freedom: the two equality boundaries
// of the time comparisons with `now` (1, 7, 8), commits that carry a present
// entry which is not a valid commit signature (nil vote, wrong signature,
// signature for another chain id) while the valid ones alone pass the
// threshold (11, 12: the verifier may or may not look at the bad entry), and
// updates for a height that already has a stored consensus state
// (duplicate / conflicting header).  The verdict is reject if any condition is
// "no", else unconstrained if anything is open, else accept.

import (
	"bytes"
	"fmt"
	"math/big"
	"sort"
	"time"

	"github.com/cometbft/cometbft/crypto"
	cryptoenc "github.com/cometbft/cometbft/crypto/encoding"
	"github.com/cometbft/cometbft/crypto/merkle"
	cmtproto "github.com/cometbft/cometbft/proto/tendermint/types"
	cmttypes "github.com/cometbft/cometbft/types"

	tmclient "github.com/bianjieai/tibc-go/modules/tibc/light-clients/07-tendermint/types"
)

// TmHeight is a (revision, height) pair.
type TmHeight struct{ Rev, H uint64 }

func (a TmHeight) Less(b TmHeight) bool {
	if a.Rev != b.Rev {
		return a.Rev < b.Rev
	}
	return a.H < b.H
}
func (a TmHeight) String() string { return fmt.Sprintf("%d-%d", a.Rev, a.H) }

// TmCons is a stored consensus state as the model believes the client holds it.
type TmCons struct {
	Time         time.Time
	AppHash      []byte
	NextValsHash []byte
}

func (c TmCons) Equal(o TmCons) bool {
	return c.Time.Equal(o.Time) && bytes.Equal(c.AppHash, o.AppHash) && bytes.Equal(c.NextValsHash, o.NextValsHash)
}

// TmVal is one validator of a supplied set.
type TmVal struct {
	Addr  []byte
	Pub   crypto.PubKey
	Power int64
}

// TmUpdate is the decoded client message.
type TmUpdate struct {
	ChainID            string
	Height             TmHeight // revision parsed from ChainID
	RawHeight          int64
	Time               time.Time
	AppHash            []byte
	ValidatorsHash     []byte
	NextValidatorsHash []byte
	HeaderHash         []byte

	Commit *cmttypes.Commit

	Own         []TmVal
	OwnHash     []byte
	Trusted     []TmVal
	TrustedHash []byte

	TrustedHeight TmHeight
}

// Cons is the consensus state an accepted update must leave behind.
func (u *TmUpdate) Cons() TmCons {
	return TmCons{Time: u.Time, AppHash: u.AppHash, NextValsHash: u.NextValidatorsHash}
}

// TmRevision parses the revision number of a chain id of the form
// "<name>-<revision>": the revision is a decimal number without leading zero
// and greater than zero, preceded by exactly one dash that follows a
// character which is not a dash.  Anything else is revision 0.
func TmRevision(chainID string) uint64 {
	i := len(chainID)
	for i > 0 && chainID[i-1] >= '0' && chainID[i-1] <= '9' {
		i--
	}
	digits := chainID[i:]
	if digits == "" || digits[0] == '0' {
		// the suffix may still end in a shorter digit run that does not start
		// with 0 only if a dash precedes it, which it does not (a digit does)
		return 0
	}
	if i < 2 || chainID[i-1] != '-' || chainID[i-2] == '-' {
		return 0
	}
	v := new(big.Int)
	if _, ok := v.SetString(digits, 10); !ok || !v.IsUint64() {
		return 0
	}
	return v.Uint64()
}

func tmVals(vp *cmtproto.ValidatorSet) ([]TmVal, []byte, error) {
	if vp == nil {
		return nil, nil, fmt.Errorf("nil validator set")
	}
	var out []TmVal
	var leaves [][]byte
	for i, v := range vp.Validators {
		if v == nil {
			return nil, nil, fmt.Errorf("nil validator %d", i)
		}
		pk, err := cryptoenc.PubKeyFromProto(v.PubKey)
		if err != nil {
			return nil, nil, err
		}
		out = append(out, TmVal{Addr: v.Address, Pub: pk, Power: v.VotingPower})
		// leaf of the validator-set hash: the (pubkey, power) pair
		leaves = append(leaves, (&cmttypes.Validator{PubKey: pk, VotingPower: v.VotingPower}).Bytes())
	}
	return out, merkle.HashFromByteSlices(leaves), nil
}

// TmExtract decodes a 07-tendermint Header into the model's terms (encoding
// only, no verification).
func TmExtract(h *tmclient.Header) (*TmUpdate, error) {
	if h == nil || h.SignedHeader == nil || h.SignedHeader.Header == nil || h.SignedHeader.Commit == nil {
		return nil, fmt.Errorf("incomplete header")
	}
	hdr, err := cmttypes.HeaderFromProto(h.SignedHeader.Header)
	if err != nil {
		return nil, err
	}
	commit, err := cmttypes.CommitFromProto(h.SignedHeader.Commit)
	if err != nil {
		return nil, err
	}
	u := &TmUpdate{
		ChainID: hdr.ChainID, RawHeight: hdr.Height, Time: hdr.Time, AppHash: hdr.AppHash,
		ValidatorsHash: hdr.ValidatorsHash, NextValidatorsHash: hdr.NextValidatorsHash,
		HeaderHash: hdr.Hash(), Commit: commit,
		TrustedHeight: TmHeight{Rev: h.TrustedHeight.RevisionNumber, H: h.TrustedHeight.RevisionHeight},
	}
	if hdr.Height < 0 {
		return nil, fmt.Errorf("negative height")
	}
	u.Height = TmHeight{Rev: TmRevision(hdr.ChainID), H: uint64(hdr.Height)}
	if u.Own, u.OwnHash, err = tmVals(h.ValidatorSet); err != nil {
		return nil, err
	}
	if u.Trusted, u.TrustedHash, err = tmVals(h.TrustedValidators); err != nil {
		return nil, err
	}
	return u, nil
}

// TmParams are the client parameters.
type TmParams struct {
	ChainID        string
	TrustNum       uint64
	TrustDen       uint64
	TrustingPeriod time.Duration
	MaxClockDrift  time.Duration
}

// TmLightModel is the model state of one client.
type TmLightModel struct {
	P      TmParams
	States map[TmHeight]TmCons
	Latest TmHeight
}

func NewTmLightModel(p TmParams, h TmHeight, cons TmCons) *TmLightModel {
	return &TmLightModel{P: p, States: map[TmHeight]TmCons{h: cons}, Latest: h}
}

// Heights returns the stored heights in ascending order.
func (m *TmLightModel) Heights() []TmHeight {
	out := make([]TmHeight, 0, len(m.States))
	for h := range m.States {
		out = append(out, h)
	}
	sort.Slice(out, func(i, j int) bool { return out[i].Less(out[j]) })
	return out
}

func ns(t time.Time) *big.Int {
	v := new(big.Int).Mul(big.NewInt(t.Unix()), big.NewInt(1_000_000_000))
	return v.Add(v, big.NewInt(int64(t.Nanosecond())))
}

// cmpExpiry compares t+TP with now: +1 still trusted, 0 exactly at the
// boundary, -1 expired.
func (m *TmLightModel) cmpExpiry(t, now time.Time) int {
	e := new(big.Int).Add(ns(t), big.NewInt(int64(m.P.TrustingPeriod)))
	return e.Cmp(ns(now))
}

// Usable tells whether the stored state at h is strictly inside the trusting
// period at `now` (expired states are unusable; whether the client pruned them
// does not matter).
func (m *TmLightModel) Usable(h TmHeight, now time.Time) bool {
	s, ok := m.States[h]
	return ok && m.cmpExpiry(s.Time, now) > 0
}

// Verdict kinds.
const (
	TmAccept = iota
	TmReject
	TmOpen
)

// TmVerdict is the three-valued outcome plus facts for statistics.
type TmVerdict struct {
	Kind   int
	Reason string   // first failed condition (reject) or first open one (unconstrained)
	Failed []string // all failed conditions
	Open   []string // all open conditions

	Adjacent       bool
	HeightStored   bool // a consensus state for the header height exists already
	SameAsStored   bool // ... and equals what the header would store
	ClientExpired  bool
	NowEqExpiry    bool // client expiry or trusted-state expiry hit exactly
	TimeEqDrift    bool
	ExactThreshold bool // some tallied sum equals a threshold exactly
	BadSigPresent  bool
	OwnSigned      *big.Int
	OwnTotal       *big.Int
	TrustSigned    *big.Int
	TrustTotal     *big.Int
}

func (v TmVerdict) String() string {
	switch v.Kind {
	case TmAccept:
		return "accept"
	case TmReject:
		return "reject(" + v.Reason + ")"
	}
	return "unconstrained(" + v.Reason + ")"
}

// Reasons (stable: they appear in violation signatures).
const (
	TmRClientExpired   = "client-expired"
	TmRTrustedUnknown  = "trusted-height-unknown"
	TmRTrustedVals     = "trusted-validators-mismatch"
	TmRRevision        = "revision-mismatch"
	TmRChainID         = "chain-id"
	TmRHeight          = "height-not-newer"
	TmRTimePast        = "time-not-after-trusted"
	TmRTimeFuture      = "time-beyond-drift"
	TmRTrustedExpired  = "trusted-state-expired"
	TmRValsHash        = "validators-hash-mismatch"
	TmRCommit          = "commit-not-for-header"
	TmROwnPower        = "own-power-not-over-two-thirds"
	TmRAdjacentVals    = "adjacent-validators-not-committed"
	TmRTrustPower      = "trusted-power-not-over-trust-level"
	TmOBoundaryExpiry  = "now-eq-client-expiry"
	TmOBoundaryTrusted = "now-eq-trusted-expiry"
	TmOBoundaryDrift   = "time-eq-now-plus-drift"
	TmOBadSig          = "non-commit-signature-present"
	TmOHeightStored    = "height-already-stored"
)

// Verdict evaluates the rule for u at host time now.  It does not change the model.
func (m *TmLightModel) Verdict(u *TmUpdate, now time.Time) TmVerdict {
	v := TmVerdict{}
	no := func(r string) { v.Failed = append(v.Failed, r) }
	open := func(r string) { v.Open = append(v.Open, r) }

	// 1 client not expired
	latest, ok := m.States[m.Latest]
	if !ok {
		no(TmRClientExpired) // cannot happen: the model never drops the latest state
	} else {
		switch c := m.cmpExpiry(latest.Time, now); {
		case c < 0:
			v.ClientExpired = true
			no(TmRClientExpired)
		case c == 0:
			v.NowEqExpiry = true
			open(TmOBoundaryExpiry)
		}
	}

	// 4 revision / chain (independent of the trusted state)
	if u.Height.Rev != u.TrustedHeight.Rev {
		no(TmRRevision)
	}
	// the tracked chain, in the revision the header claims: a client whose chain id carries a
	// revision number follows "<name>-<r>" for every revision r it holds trusted states of
	wantID := m.ExpectedChainID(u.Height.Rev)
	if u.ChainID != wantID {
		no(TmRChainID)
	}
	// 5 newer
	if u.Height.Rev == u.TrustedHeight.Rev && u.Height.H <= u.TrustedHeight.H {
		no(TmRHeight)
	}
	v.Adjacent = u.Height.Rev == u.TrustedHeight.Rev && u.Height.H == u.TrustedHeight.H+1

	// 7 not from the future
	{
		lim := new(big.Int).Add(ns(now), big.NewInt(int64(m.P.MaxClockDrift)))
		switch c := ns(u.Time).Cmp(lim); {
		case c > 0:
			no(TmRTimeFuture)
		case c == 0:
			v.TimeEqDrift = true
			open(TmOBoundaryDrift)
		}
	}

	// 9 own validator set
	if !bytes.Equal(u.ValidatorsHash, u.OwnHash) {
		no(TmRValsHash)
	}

	// 10 commit is for this header
	commitOK := u.Commit != nil && bytes.Equal(u.Commit.BlockID.Hash, u.HeaderHash) &&
		u.Commit.Height == u.RawHeight && len(u.Commit.Signatures) == len(u.Own)
	if !commitOK {
		no(TmRCommit)
	}

	// signatures: which entries are valid commit signatures of the own set
	valid := make([]bool, len(u.Own))
	if commitOK {
		for i, cs := range u.Commit.Signatures {
			if cs.BlockIDFlag == cmttypes.BlockIDFlagAbsent {
				continue
			}
			good := false
			if cs.BlockIDFlag == cmttypes.BlockIDFlagCommit && u.Own[i].Pub != nil {
				msg := u.Commit.VoteSignBytes(wantID, int32(i))
				good = u.Own[i].Pub.VerifySignature(msg, cs.Signature)
			}
			if good {
				valid[i] = true
			} else {
				v.BadSigPresent = true
			}
		}
	}

	// 11 own quorum: 3·signed > 2·total
	v.OwnSigned, v.OwnTotal = new(big.Int), new(big.Int)
	for i, val := range u.Own {
		v.OwnTotal.Add(v.OwnTotal, big.NewInt(val.Power))
		if valid[i] {
			v.OwnSigned.Add(v.OwnSigned, big.NewInt(val.Power))
		}
	}
	if commitOK {
		l := new(big.Int).Mul(v.OwnSigned, big.NewInt(3))
		r := new(big.Int).Mul(v.OwnTotal, big.NewInt(2))
		switch c := l.Cmp(r); {
		case c <= 0:
			no(TmROwnPower)
			if c == 0 {
				v.ExactThreshold = true
			}
		}
		// the 1/3 mark of the own set (no rule of its own, statistics only)
		if new(big.Int).Mul(v.OwnSigned, big.NewInt(3)).Cmp(v.OwnTotal) == 0 {
			v.ExactThreshold = true
		}
	}

	// conditions that need the trusted state
	ts, stored := m.States[u.TrustedHeight]
	if !stored {
		no(TmRTrustedUnknown)
	} else {
		// 3
		if !bytes.Equal(u.TrustedHash, ts.NextValsHash) {
			no(TmRTrustedVals)
		}
		// 6
		if ns(u.Time).Cmp(ns(ts.Time)) <= 0 {
			no(TmRTimePast)
		}
		// 8
		switch c := m.cmpExpiry(ts.Time, now); {
		case c < 0:
			no(TmRTrustedExpired)
		case c == 0:
			v.NowEqExpiry = true
			open(TmOBoundaryTrusted)
		}
		// 12
		if v.Adjacent {
			if !bytes.Equal(u.ValidatorsHash, ts.NextValsHash) {
				no(TmRAdjacentVals)
			}
		} else if commitOK {
			v.TrustSigned, v.TrustTotal = new(big.Int), new(big.Int)
			for _, tv := range u.Trusted {
				v.TrustTotal.Add(v.TrustTotal, big.NewInt(tv.Power))
			}
			counted := map[string]bool{}
			for i, cs := range u.Commit.Signatures {
				if cs.BlockIDFlag != cmttypes.BlockIDFlagCommit {
					continue
				}
				for _, tv := range u.Trusted {
					if !bytes.Equal(tv.Addr, cs.ValidatorAddress) || counted[string(tv.Addr)] {
						continue
					}
					msg := u.Commit.VoteSignBytes(wantID, int32(i))
					if tv.Pub != nil && tv.Pub.VerifySignature(msg, cs.Signature) {
						counted[string(tv.Addr)] = true
						v.TrustSigned.Add(v.TrustSigned, big.NewInt(tv.Power))
					}
					break
				}
			}
			l := new(big.Int).Mul(v.TrustSigned, new(big.Int).SetUint64(m.P.TrustDen))
			r := new(big.Int).Mul(v.TrustTotal, new(big.Int).SetUint64(m.P.TrustNum))
			switch c := l.Cmp(r); {
			case c <= 0:
				no(TmRTrustPower)
				if c == 0 {
					v.ExactThreshold = true
				}
			}
		}
	}

	// a present entry that is not a valid commit signature leaves acceptance open
	if v.BadSigPresent {
		open(TmOBadSig)
	}
	// duplicate / conflicting header
	if old, exists := m.States[u.Height]; exists {
		v.HeightStored = true
		v.SameAsStored = old.Equal(u.Cons())
		open(TmOHeightStored)
	}

	switch {
	case len(v.Failed) > 0:
		v.Kind = TmReject
		v.Reason = tmFirst(v.Failed)
	case len(v.Open) > 0:
		v.Kind = TmOpen
		v.Reason = v.Open[0]
	default:
		v.Kind = TmAccept
	}
	return v
}

// reject reasons in reporting priority (most basic first)
var tmOrder = []string{
	TmRClientExpired, TmRTrustedUnknown, TmRTrustedVals, TmRRevision, TmRChainID, TmRHeight, TmRTimePast,
	TmRTimeFuture, TmRTrustedExpired, TmRValsHash, TmRCommit, TmRAdjacentVals, TmROwnPower, TmRTrustPower,
}

func tmFirst(failed []string) string {
	for _, r := range tmOrder {
		for _, f := range failed {
			if f == r {
				return r
			}
		}
	}
	return failed[0]
}

// ExpectedChainID is the chain id a header of revision rev must carry: the client's
// chain id, with its revision number replaced by rev when it has one.
func (m *TmLightModel) ExpectedChainID(rev uint64) string {
	id := m.P.ChainID
	if TmRevision(id) == 0 {
		return id
	}
	i := len(id)
	for i > 0 && id[i-1] != '-' {
		i--
	}
	return fmt.Sprintf("%s%d", id[:i], rev)
}

// Upgrade records a governance upgrade of the client: new chain id, new latest height and
// the consensus state stored for it; older trusted states stay.
func (m *TmLightModel) Upgrade(chainID string, h TmHeight, cons TmCons) {
	m.P.ChainID = chainID
	m.States[h] = cons
	m.Latest = h
}

// Apply records an accepted update.
func (m *TmLightModel) Apply(u *TmUpdate) {
	m.States[u.Height] = u.Cons()
	if m.Latest.Less(u.Height) {
		m.Latest = u.Height
	}
}
