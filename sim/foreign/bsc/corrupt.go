package bsc

import (
	"github.com/ethereum/go-ethereum/common"

	bsctypes "github.com/bianjieai/tibc-go/modules/tibc/light-clients/08-bsc/types"

	"tibcsim/model"
)

// Corruption kinds: each one changes a single aspect of an otherwise valid
// next header and (unless the kind is about the seal itself) seals the result
// properly, so that only the corrupted rule is at stake.  Whether the result is
// still valid is decided by the ParliaModel, not by the label.
const (
	KParentHash        = "parent-hash"
	KNumberPlus        = "number-plus"
	KNumberMinus       = "number-minus"
	KDifficultySwap    = "difficulty-swap"
	KDifficultyOther   = "difficulty-other"
	KGasLimitOver      = "gas-limit-over"
	KGasLimitAtBound   = "gas-limit-at-bound"
	KGasLimitInside    = "gas-limit-inside"
	KGasLimitHuge      = "gas-limit-huge"
	KGasLimitTiny      = "gas-limit-tiny"
	KGasUsedOver       = "gas-used-over"
	KValsOnNonEpoch    = "validators-on-non-epoch"
	KValsOddLength     = "validators-odd-length"
	KEpochNoVals       = "epoch-no-validators"
	KMixDigest         = "mix-digest"
	KUncleHash         = "uncle-hash"
	KCoinbaseOther     = "coinbase-other"
	KSignerOutsider    = "signer-outsider"
	KSignerNotInForce  = "signer-not-in-force"
	KSignerRecent      = "signer-recent"
	KChainID           = "chain-id"
	KTimeEqualParent   = "time-equal-parent"
	KTimeBeforeParent  = "time-before-parent"
	KTimeFarFuture     = "time-far-future"
	KSealZero          = "seal-zero"
	KSealBitflip       = "seal-bitflip"
	KSealBadV          = "seal-bad-v"
	KExtraShort        = "extra-short"
	KTamperAfterSeal   = "tamper-after-seal"
	KRevisionNumber    = "revision-number"
	KSkipOne           = "skip-one"
	KResubmitOld       = "resubmit-old"
	KResubmitLatest    = "resubmit-latest"
	KSiblingOfLatest   = "sibling-of-latest"
	KSignerJustShifted = "signer-just-left-window" // valid: sealed block number-floor(N/2)-1
)

// FieldKinds are single-field corruptions; SequenceKinds submit a well-formed
// header at the wrong place of the chain.
var FieldKinds = []string{
	KParentHash, KNumberPlus, KNumberMinus, KDifficultySwap, KDifficultyOther,
	KGasLimitOver, KGasLimitAtBound, KGasLimitInside, KGasLimitHuge, KGasLimitTiny, KGasUsedOver,
	KValsOnNonEpoch, KValsOddLength, KEpochNoVals, KMixDigest, KUncleHash, KCoinbaseOther,
	KSignerOutsider, KSignerNotInForce, KSignerRecent, KChainID,
	KTimeEqualParent, KTimeBeforeParent, KTimeFarFuture,
	KSealZero, KSealBitflip, KSealBadV, KExtraShort, KTamperAfterSeal, KSignerJustShifted, KRevisionNumber,
}

var SequenceKinds = []string{KSkipOne, KResubmitOld, KResubmitLatest, KSiblingOfLatest}

// Applicable lists the kinds that can be built in the current state, in a fixed order.
func (c *Chain) Applicable(kinds []string) []string {
	m := c.M
	number := m.Number() + 1
	epoch := m.IsEpoch(number)
	var out []string
	for _, k := range kinds {
		ok := true
		switch k {
		case KValsOnNonEpoch:
			ok = !epoch
		case KEpochNoVals:
			ok = epoch
		case KSignerRecent:
			ok = len(c.recentInForce(m, number)) > 0
		case KSignerJustShifted:
			ok = c.justShifted(m, number) != nil
		case KSignerNotInForce:
			ok = len(c.notInForce(m)) > 0
		case KSiblingOfLatest:
			ok = c.Prev != nil
		case KResubmitOld:
			ok = len(c.Accepted) >= 2
		}
		if ok {
			out = append(out, k)
		}
	}
	return out
}

// recentInForce: validators in force that sealed one of the preceding floor(N/2) blocks.
func (c *Chain) recentInForce(m *model.ParliaModel, number uint64) []common.Address {
	var out []common.Address
	for _, v := range m.InForce {
		if m.SealedRecently(v, number) {
			out = append(out, v)
		}
	}
	return out
}

// justShifted: the sealer of block number-floor(N/2)-1 when it may seal again.
func (c *Chain) justShifted(m *model.ParliaModel, number uint64) *Validator {
	half := uint64(len(m.InForce) / 2)
	if number <= half+1 {
		return nil
	}
	s, ok := m.Signers[number-half-1]
	if !ok || !m.IsInForce(s) || m.SealedRecently(s, number) {
		return nil
	}
	return c.byAddr[s]
}

// notInForce: pool members outside the set in force; members of the announced
// (pending) set and members of the previous set first.
func (c *Chain) notInForce(m *model.ParliaModel) []common.Address {
	var pref, rest []common.Address
	isPref := map[common.Address]bool{}
	if m.HasPending {
		for _, a := range m.Pending {
			isPref[a] = true
		}
	}
	if c.Prev != nil {
		for _, a := range c.Prev.InForce {
			isPref[a] = true
		}
	}
	for _, v := range c.Pool {
		if m.IsInForce(v.Addr) {
			continue
		}
		if isPref[v.Addr] {
			pref = append(pref, v.Addr)
		} else {
			rest = append(rest, v.Addr)
		}
	}
	if len(pref) > 0 {
		return pref
	}
	return rest
}

// anySigner returns an eligible signer, or any pool key when nobody is eligible.
func (c *Chain) anySigner(m *model.ParliaModel) *Validator {
	if v := c.PickSigner(m); v != nil {
		return v
	}
	return c.Pool[c.Ch.Int(len(c.Pool))]
}

func setDifficultyFor(m *model.ParliaModel, h *bsctypes.Header, a common.Address) {
	h.Difficulty = model.ParliaNoTurn
	if t, ok := m.InTurnAt(h.Height.RevisionHeight); ok && t == a {
		h.Difficulty = model.ParliaInTurn
	}
}

// Corrupt builds a submission of the given kind (nil if it cannot be built now).
func (c *Chain) Corrupt(kind string) (*Submission, error) {
	ch := c.Ch
	m := c.M
	number := m.Number() + 1
	parent := m.Latest
	sub := &Submission{Kind: kind}
	seal := func(h *bsctypes.Header, v *Validator) error { return c.Seal(h, v, c.Cfg.ChainID) }

	switch kind {
	// ---------------------------------------------------------- sequence faults
	case KSkipOne:
		m2 := m.Clone()
		v1 := c.anySigner(m2)
		h1 := c.Draft(m2, v1)
		if err := seal(h1, v1); err != nil {
			return nil, err
		}
		m2.Apply(h1, v1.Addr, true)
		v2 := c.anySigner(m2)
		h2 := c.Draft(m2, v2)
		if err := seal(h2, v2); err != nil {
			return nil, err
		}
		sub.Header = h2
		return sub, nil
	case KResubmitOld:
		if len(c.Accepted) < 2 {
			return nil, nil
		}
		i := ch.Int(len(c.Accepted) - 1) // never the latest
		sub.Header = model.CloneBscHeader(c.Accepted[i])
		return sub, nil
	case KResubmitLatest:
		sub.Header = model.CloneBscHeader(c.Accepted[len(c.Accepted)-1])
		return sub, nil
	case KSiblingOfLatest:
		if c.Prev == nil {
			return nil, nil
		}
		v := c.anySigner(c.Prev)
		h := c.Draft(c.Prev, v)
		if err := seal(h, v); err != nil {
			return nil, err
		}
		sub.Header = h
		return sub, nil
	}

	// ---------------------------------------------------------- signer choices
	switch kind {
	case KSignerOutsider, KSignerNotInForce, KSignerRecent, KSignerJustShifted:
		var v *Validator
		switch kind {
		case KSignerOutsider:
			v = c.Outsiders[ch.Int(len(c.Outsiders))]
		case KSignerNotInForce:
			l := c.notInForce(m)
			if len(l) == 0 {
				return nil, nil
			}
			v = c.byAddr[l[ch.Int(len(l))]]
		case KSignerRecent:
			l := c.recentInForce(m, number)
			if len(l) == 0 {
				return nil, nil
			}
			// the two ends of the window matter most
			switch ch.Pick([]int{2, 2, 3}) {
			case 0: // sealer of the previous block
				if s, ok := m.Signers[number-1]; ok && m.IsInForce(s) {
					v = c.byAddr[s]
				}
			case 1: // sealer of the oldest block still inside the window
				half := uint64(len(m.InForce) / 2)
				if number >= half {
					if s, ok := m.Signers[number-half]; ok && m.IsInForce(s) && m.SealedRecently(s, number) {
						v = c.byAddr[s]
					}
				}
			}
			if v == nil {
				v = c.byAddr[l[ch.Int(len(l))]]
			}
		case KSignerJustShifted:
			v = c.justShifted(m, number)
			if v == nil {
				return nil, nil
			}
		}
		h := c.Draft(m, v)
		setDifficultyFor(m, h, v.Addr)
		if !m.IsInForce(v.Addr) && ch.Bool(1, 2) {
			h.Difficulty = model.ParliaInTurn
		}
		if err := seal(h, v); err != nil {
			return nil, err
		}
		sub.Header, sub.Note = h, "signer="+v.Addr.Hex()[:10]
		return sub, nil
	}

	// ---------------------------------------------------------- field corruptions
	v := c.anySigner(m)
	h := c.Draft(m, v)
	sub.Header = h
	sub.Note = "signer=" + v.Addr.Hex()[:10]
	bound := parent.GasLimit / 256
	sign := func() bool { return ch.Bool(1, 2) }
	moveGas := func(delta uint64) {
		if sign() || parent.GasLimit < delta {
			h.GasLimit = parent.GasLimit + delta
		} else {
			h.GasLimit = parent.GasLimit - delta
		}
		if h.GasUsed > h.GasLimit {
			h.GasUsed = h.GasLimit
		}
	}
	sealed := false
	switch kind {
	case KParentHash:
		h.ParentHash[ch.Int(32)] ^= byte(1) << uint(ch.Int(8))
	case KNumberPlus:
		h.Height.RevisionHeight = number + uint64(ch.Range(1, 3))
	case KNumberMinus:
		d := uint64(ch.Range(1, 2))
		if d > number {
			d = number
		}
		h.Height.RevisionHeight = number - d
	case KDifficultySwap:
		h.Difficulty = 3 - h.Difficulty
	case KDifficultyOther:
		h.Difficulty = []uint64{0, 3, 4, 1 << 32}[ch.Int(4)]
	case KGasLimitOver:
		moveGas(bound + uint64(ch.Range(1, 2000)))
	case KGasLimitAtBound:
		moveGas(bound)
	case KGasLimitInside:
		if bound >= 1 {
			moveGas(bound - 1)
		}
	case KGasLimitHuge:
		h.GasLimit = uint64(1)<<63 + uint64(ch.Int(1000))
	case KGasLimitTiny:
		h.GasLimit = uint64(ch.Int(5000))
		if h.GasUsed > h.GasLimit {
			h.GasUsed = h.GasLimit
		}
	case KGasUsedOver:
		h.GasUsed = h.GasLimit + uint64(ch.Range(1, 1000))
	case KValsOnNonEpoch:
		k := ch.Range(1, 3)
		var listed []common.Address
		for i := 0; i < k && len(m.InForce) > 0; i++ {
			listed = append(listed, m.InForce[i%len(m.InForce)])
		}
		if len(listed) == 0 {
			listed = []common.Address{v.Addr}
		}
		h.Extra = buildExtra(h.Extra[:32], listed)
	case KValsOddLength:
		vb := append([]byte{}, h.Extra[32:len(h.Extra)-65]...)
		extra := ch.Range(1, 19)
		if len(vb) >= 20 && sign() {
			vb = vb[:len(vb)-extra]
		} else {
			vb = append(vb, c.rnd(extra)...)
		}
		e := append([]byte{}, h.Extra[:32]...)
		e = append(e, vb...)
		h.Extra = append(e, make([]byte, 65)...)
	case KEpochNoVals:
		h.Extra = buildExtra(h.Extra[:32], nil)
	case KMixDigest:
		h.MixDigest[ch.Int(32)] = byte(ch.Range(1, 255))
	case KUncleHash:
		if sign() {
			h.UncleHash = make([]byte, 32)
		} else {
			h.UncleHash[ch.Int(32)] ^= byte(1) << uint(ch.Int(8))
		}
	case KCoinbaseOther:
		var other common.Address
		if len(m.InForce) > 1 && sign() {
			other = m.InForce[ch.Int(len(m.InForce))]
			if other == v.Addr {
				other = c.Outsiders[0].Addr
			}
		} else {
			other = common.BytesToAddress(c.rnd(20))
		}
		h.Coinbase = other.Bytes()
	case KChainID:
		if err := c.Seal(h, v, c.Cfg.ChainID+uint64(ch.Range(1, 3))); err != nil {
			return nil, err
		}
		sealed = true
	case KRevisionNumber:
		h.Height.RevisionNumber = parent.Height.RevisionNumber + uint64(ch.Range(1, 9))
	case KTimeEqualParent:
		h.Time = parent.Time
	case KTimeBeforeParent:
		d := uint64(ch.Range(1, 100))
		if d > parent.Time {
			d = parent.Time
		}
		h.Time = parent.Time - d
	case KTimeFarFuture:
		h.Time = parent.Time + 10*365*86400
	case KSealZero:
		sealed = true // 65 zero bytes
	case KSealBitflip:
		if err := seal(h, v); err != nil {
			return nil, err
		}
		h.Extra[len(h.Extra)-65+ch.Int(64)] ^= byte(1) << uint(ch.Int(8))
		sealed = true
	case KSealBadV:
		if err := seal(h, v); err != nil {
			return nil, err
		}
		h.Extra[len(h.Extra)-1] = byte(ch.Range(2, 255))
		sealed = true
	case KExtraShort:
		if err := seal(h, v); err != nil {
			return nil, err
		}
		h.Extra = h.Extra[:ch.Int(32+65)]
		sealed = true
	case KTamperAfterSeal:
		if err := seal(h, v); err != nil {
			return nil, err
		}
		switch ch.Int(7) {
		case 0:
			h.Root[ch.Int(32)] ^= 1
		case 1:
			h.TxHash[ch.Int(32)] ^= 1
		case 2:
			h.ReceiptHash[ch.Int(32)] ^= 1
		case 3:
			h.Bloom[ch.Int(256)] ^= 1
		case 4:
			h.Time++
		case 5:
			if h.GasUsed > 0 {
				h.GasUsed--
			} else {
				h.GasUsed++
			}
		case 6:
			h.Nonce[ch.Int(8)] ^= 1
		}
		sealed = true
	default:
		return nil, nil
	}
	if !sealed {
		if err := seal(h, v); err != nil {
			return nil, err
		}
	}
	return sub, nil
}
