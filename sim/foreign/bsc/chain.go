// Package bsc is a seeded model of a BSC (Parlia) chain as a light client sees
// it: validator keys, validator-set rotation at epoch blocks and sealed
// headers.  It is NOT a BSC node: no state, no transactions, no system
// contracts; header fields that only a full node can check (state root, tx
// root, bloom ...) carry seeded pseudo-random bytes.
package bsc

import (
	"crypto/ecdsa"
	"fmt"
	"sort"

	"github.com/ethereum/go-ethereum/common"
	"github.com/ethereum/go-ethereum/crypto"

	clienttypes "github.com/bianjieai/tibc-go/modules/tibc/core/02-client/types"
	bsctypes "github.com/bianjieai/tibc-go/modules/tibc/light-clients/08-bsc/types"

	"tibcsim/chooser"
	"tibcsim/model"
)

// Validator is a seeded secp256k1 key.
type Validator struct {
	Name string
	Key  *ecdsa.PrivateKey
	Addr common.Address
}

// NewValidator derives a key from a string (deterministic).
func NewValidator(secret string) *Validator {
	for i := 0; ; i++ {
		d := crypto.Keccak256([]byte(fmt.Sprintf("%s#%d", secret, i)))
		k, err := crypto.ToECDSA(d)
		if err == nil {
			return &Validator{Name: secret, Key: k, Addr: crypto.PubkeyToAddress(k.PublicKey)}
		}
	}
}

const (
	PoolSize     = 27 // candidate validators (sets of up to 21 are drawn from them)
	NumOutsiders = 3  // keys that are never in any set
	MaxSetSize   = 21
	BlockSeconds = 3
)

// Config of a chain.
type Config struct {
	ChainID     uint64
	Epoch       uint64
	Start       uint64 // height of the header the client starts from (multiple of Epoch)
	InitialSize int    // size of the set in force at Start
	StartTime   uint64 // unix seconds of header Start
}

// MaxSizeFor is the largest set for which floor(N/2) < epoch (so that an
// announced set always takes effect before the next epoch block).
func MaxSizeFor(epoch uint64) int {
	m := 2*int(epoch) - 1
	if m > MaxSetSize {
		m = MaxSetSize
	}
	if m < 1 {
		m = 1
	}
	return m
}

// Chain generates headers.  M is the generator's view of the chain the client
// follows: it advances only through Accept.
type Chain struct {
	Ch        *chooser.Chooser
	Cfg       Config
	Pool      []*Validator
	Outsiders []*Validator
	byAddr    map[common.Address]*Validator

	M        *model.ParliaModel
	Prev     *model.ParliaModel // state before the last accepted header
	Accepted []*bsctypes.Header // start header followed by every accepted header

	StartSigners map[uint64]common.Address
	StartInForce []common.Address
}

func NewChain(ch *chooser.Chooser, cfg Config) (*Chain, error) {
	if cfg.Epoch == 0 || cfg.Start%cfg.Epoch != 0 {
		return nil, fmt.Errorf("bsc chain: start %d is not a multiple of epoch %d", cfg.Start, cfg.Epoch)
	}
	if cfg.InitialSize < 1 || cfg.InitialSize > MaxSizeFor(cfg.Epoch) {
		return nil, fmt.Errorf("bsc chain: initial size %d out of range for epoch %d", cfg.InitialSize, cfg.Epoch)
	}
	c := &Chain{Ch: ch, Cfg: cfg, byAddr: map[common.Address]*Validator{}}
	for i := 0; i < PoolSize; i++ {
		v := NewValidator(fmt.Sprintf("tibcsim/bsc/validator/%d", i))
		c.Pool = append(c.Pool, v)
		c.byAddr[v.Addr] = v
	}
	for i := 0; i < NumOutsiders; i++ {
		v := NewValidator(fmt.Sprintf("tibcsim/bsc/outsider/%d", i))
		c.Outsiders = append(c.Outsiders, v)
		c.byAddr[v.Addr] = v
	}
	// the set in force at Start
	s0 := c.drawSet(nil, cfg.InitialSize)
	n := len(s0)
	half := uint64(n / 2)

	// pre-history: who sealed the last floor(N/2)+1 heights (any sequence in
	// which nobody seals twice within floor(N/2)+1 consecutive blocks is a
	// legal Parlia history)
	signers := map[uint64]common.Address{}
	first := uint64(1)
	if cfg.Start > half {
		first = cfg.Start - half
	}
	for h := first; h <= cfg.Start && cfg.Start > 0; h++ {
		var elig []common.Address
		for _, v := range s0 {
			recent := false
			for k := uint64(1); k <= half && k <= h; k++ {
				if s, ok := signers[h-k]; ok && s == v {
					recent = true
				}
			}
			if !recent {
				elig = append(elig, v)
			}
		}
		turn := s0[h%uint64(n)]
		pick := elig[ch.Int(len(elig))]
		if ch.Bool(3, 4) {
			for _, e := range elig {
				if e == turn {
					pick = turn
				}
			}
		}
		signers[h] = pick
	}

	// the start header announces the next set
	s1 := s0
	if cfg.Start > 0 && n/2 > 0 && ch.Bool(1, 2) {
		s1 = c.nextSet(s0)
	}
	start := &bsctypes.Header{
		ParentHash:  c.rnd(32),
		UncleHash:   model.EmptyUncleHash.Bytes(),
		Root:        c.rnd(32),
		TxHash:      c.rnd(32),
		ReceiptHash: c.rnd(32),
		Bloom:       make([]byte, 256),
		Height:      clienttypes.NewHeight(0, cfg.Start),
		GasLimit:    uint64(30_000_000 + ch.Int(30_000_000)),
		Time:        cfg.StartTime,
		MixDigest:   make([]byte, 32),
		Nonce:       make([]byte, 8),
	}
	start.GasUsed = start.GasLimit / 3
	start.Extra = buildExtra(c.rnd(32), s1)
	if cfg.Start == 0 {
		// genesis: nobody sealed it
		start.Coinbase = common.HexToAddress("0xffffFFFfFFffffffffffffffFfFFFfffFFFfFFfE").Bytes()
		start.Difficulty = 1
	} else {
		signer := signers[cfg.Start]
		start.Coinbase = signer.Bytes()
		start.Difficulty = model.ParliaNoTurn
		if s0[cfg.Start%uint64(n)] == signer {
			start.Difficulty = model.ParliaInTurn
		}
		if err := c.Seal(start, c.byAddr[signer], cfg.ChainID); err != nil {
			return nil, err
		}
	}
	c.StartSigners = signers
	c.StartInForce = s0
	c.M = model.NewParliaModel(cfg.ChainID, cfg.Epoch)
	if err := c.M.Init(start, s0, signers); err != nil {
		return nil, err
	}
	c.Accepted = []*bsctypes.Header{model.CloneBscHeader(start)}
	return c, nil
}

// InitialClient builds the client and consensus state an honest creator would
// register for this chain at Cfg.Start.
func (c *Chain) InitialClient() (*bsctypes.ClientState, *bsctypes.ConsensusState) {
	start := c.Accepted[0]
	var recents []bsctypes.Signer
	hs := make([]uint64, 0, len(c.StartSigners))
	for h := range c.StartSigners {
		hs = append(hs, h)
	}
	sort.Slice(hs, func(i, j int) bool { return hs[i] < hs[j] })
	for _, h := range hs {
		recents = append(recents, bsctypes.Signer{Height: clienttypes.NewHeight(0, h), Validator: c.StartSigners[h].Bytes()})
	}
	cs := &bsctypes.ClientState{
		Header:          *model.CloneBscHeader(start),
		ChainId:         c.Cfg.ChainID,
		Epoch:           c.Cfg.Epoch,
		BlockInteval:    BlockSeconds,
		Validators:      AddrBytes(c.M.InForce), // the set in force for block Start+1
		RecentSigners:   recents,
		ContractAddress: common.HexToAddress("0x00000000000000000000000000000000000071bC").Bytes(),
		TrustingPeriod:  20 * 365 * 24 * 3600, // seconds; the BSC client must not expire inside a run (expiry is C14)
	}
	cons := &bsctypes.ConsensusState{Timestamp: start.Time, Number: start.Height, Root: append([]byte{}, start.Root...)}
	return cs, cons
}

// Accept records that the client accepted h.
func (c *Chain) Accept(h *bsctypes.Header, signer common.Address, known bool) {
	c.Prev = c.M.Clone()
	c.M.Apply(h, signer, known)
	c.Accepted = append(c.Accepted, model.CloneBscHeader(h))
}

func (c *Chain) Validator(a common.Address) *Validator { return c.byAddr[a] }

// rnd returns n pseudo-random bytes expanded from a single draw.
func (c *Chain) rnd(n int) []byte {
	v := c.Ch.Uint64()
	out := make([]byte, 0, n+32)
	for i := 0; len(out) < n; i++ {
		out = append(out, crypto.Keccak256([]byte(fmt.Sprintf("tibcsim/bsc/rnd/%d/%d", v, i)))...)
	}
	return out[:n]
}

func buildExtra(vanity []byte, listed []common.Address) []byte {
	e := append([]byte{}, vanity[:model.ParliaVanity]...)
	for _, a := range listed {
		e = append(e, a.Bytes()...)
	}
	return append(e, make([]byte, model.ParliaSeal)...)
}

func AddrBytes(as []common.Address) [][]byte {
	out := make([][]byte, len(as))
	for i, a := range as {
		out[i] = append([]byte{}, a.Bytes()...)
	}
	return out
}

// drawSet draws `size` members: first from keep (a random subset), the rest
// from pool members outside keep.  Sorted ascending.
func (c *Chain) drawSet(keep []common.Address, size int) []common.Address {
	if size > MaxSetSize {
		size = MaxSetSize
	}
	in := map[common.Address]bool{}
	for _, a := range keep {
		in[a] = true
	}
	var out []common.Address
	k := append([]common.Address(nil), keep...)
	c.shuffle(k)
	nKeep := 0
	if len(k) > 0 {
		max := len(k)
		if size < max {
			max = size
		}
		nKeep = c.Ch.Range(0, max)
	}
	out = append(out, k[:nKeep]...)
	var rest []common.Address
	for _, v := range c.Pool {
		if !in[v.Addr] {
			rest = append(rest, v.Addr)
		}
	}
	c.shuffle(rest)
	for _, a := range rest {
		if len(out) >= size {
			break
		}
		out = append(out, a)
	}
	// not enough outsiders of keep: fill from the remainder of keep
	for _, a := range k[nKeep:] {
		if len(out) >= size {
			break
		}
		out = append(out, a)
	}
	return model.SortedAddrs(out)
}

func (c *Chain) shuffle(a []common.Address) {
	for i := len(a) - 1; i > 0; i-- {
		j := c.Ch.Int(i + 1)
		a[i], a[j] = a[j], a[i]
	}
}

// nextSet draws the set an epoch block announces.
func (c *Chain) nextSet(cur []common.Address) []common.Address {
	max := MaxSizeFor(c.Cfg.Epoch)
	switch c.Ch.Pick([]int{3, 3, 2, 2}) {
	case 0: // unchanged
		return append([]common.Address(nil), cur...)
	case 1: // replace a few members, size +-2
		size := len(cur) + c.Ch.Range(-2, 2)
		if size < 1 {
			size = 1
		}
		if size > max {
			size = max
		}
		return c.drawSet(cur, size)
	case 2: // any size, overlapping
		return c.drawSet(cur, c.Ch.Range(1, max))
	default: // any size, mostly new members
		return c.drawSet(nil, c.Ch.Range(1, max))
	}
}

// PickSigner draws a validator that may seal the next block on m (nil if none).
func (c *Chain) PickSigner(m *model.ParliaModel) *Validator {
	number := m.Number() + 1
	elig := m.Eligible(number)
	if len(elig) == 0 {
		c.Ch.Int(1)
		return nil
	}
	has := func(a common.Address) bool {
		for _, e := range elig {
			if e == a {
				return true
			}
		}
		return false
	}
	switch c.Ch.Pick([]int{7, 1, 2}) {
	case 0: // the in-turn validator when it may seal
		if t, ok := m.InTurnAt(number); ok && has(t) {
			return c.byAddr[t]
		}
	case 1: // the validator that has just left the recency window
		half := uint64(len(m.InForce) / 2)
		if number > half+1 {
			if s, ok := m.Signers[number-half-1]; ok && has(s) {
				return c.byAddr[s]
			}
		}
	}
	return c.byAddr[elig[c.Ch.Int(len(elig))]]
}

// Draft builds an unsealed, otherwise valid child of m.Latest for signer.
func (c *Chain) Draft(m *model.ParliaModel, signer *Validator) *bsctypes.Header {
	parent := m.Latest
	number := m.Number() + 1
	h := &bsctypes.Header{
		ParentHash:  m.LatestHash.Bytes(),
		UncleHash:   model.EmptyUncleHash.Bytes(),
		Coinbase:    signer.Addr.Bytes(),
		Root:        c.rnd(32),
		TxHash:      c.rnd(32),
		ReceiptHash: c.rnd(32),
		Bloom:       c.rnd(256),
		Difficulty:  model.ParliaNoTurn,
		Height:      clienttypes.NewHeight(parent.Height.RevisionNumber, number),
		Time:        parent.Time + BlockSeconds,
		MixDigest:   make([]byte, 32),
		Nonce:       make([]byte, 8),
	}
	if t, ok := m.InTurnAt(number); ok && t == signer.Addr {
		h.Difficulty = model.ParliaInTurn
	}
	// gas limit strictly inside the bound
	bound := parent.GasLimit / 256
	delta := uint64(0)
	if bound > 1 {
		switch c.Ch.Pick([]int{2, 5, 1}) {
		case 0:
		case 1:
			delta = uint64(c.Ch.Int(int(bound - 1)))
		case 2:
			delta = bound - 1
		}
		if delta > bound-1 {
			delta = bound - 1
		}
	} else {
		c.Ch.Int(1)
	}
	up := c.Ch.Bool(1, 2)
	if parent.GasLimit > 90_000_000 {
		up = false
	}
	if parent.GasLimit < 12_000_000 {
		up = true
	}
	if up {
		h.GasLimit = parent.GasLimit + delta
	} else {
		h.GasLimit = parent.GasLimit - delta
	}
	h.GasUsed = uint64(c.Ch.Int(int(h.GasLimit/1000)+1)) * 1000
	if h.GasUsed > h.GasLimit {
		h.GasUsed = h.GasLimit
	}
	var listed []common.Address
	if m.IsEpoch(number) {
		listed = c.nextSet(m.InForce)
	}
	h.Extra = buildExtra(c.rnd(32), listed)
	return h
}

// Seal signs h (over chainID) with v's key and puts the seal into the extra.
func (c *Chain) Seal(h *bsctypes.Header, v *Validator, chainID uint64) error {
	sh, err := model.ParliaSealHash(h, chainID)
	if err != nil {
		return err
	}
	sig, err := crypto.Sign(sh[:], v.Key)
	if err != nil {
		return err
	}
	copy(h.Extra[len(h.Extra)-model.ParliaSeal:], sig)
	return nil
}

// Submission is a header together with how it was made.
type Submission struct {
	Header *bsctypes.Header
	Kind   string // "honest" or the corruption kind
	Note   string
}

// NextValid builds the next valid header (random eligible signer); nil when
// nobody may seal (only possible after an empty set was announced).
func (c *Chain) NextValid() (*Submission, error) {
	v := c.PickSigner(c.M)
	if v == nil {
		return nil, nil
	}
	h := c.Draft(c.M, v)
	if err := c.Seal(h, v, c.Cfg.ChainID); err != nil {
		return nil, err
	}
	return &Submission{Header: h, Kind: "honest", Note: "signer=" + v.Addr.Hex()[:10]}, nil
}
