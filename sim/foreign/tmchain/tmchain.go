// Package tmchain is a seeded model of a foreign ("virtual") Tendermint chain:
// no application, no consensus — only what a light client ever sees of a chain:
// per height a validator set, the next validator set, a block time and an app
// hash, plus the private keys of every validator so that any commit (honest,
// partial, forged) can be produced.
//
// A chain is a pure function of its Config (in particular Config.Seed, which a
// profile draws from the chooser): blocks are generated lazily, in height
// order, from a private splitmix64 stream and cached, so the same
// (config, height) always yields the same block no matter in which order
// heights are asked for.
package tmchain

import (
	"fmt"
	"time"

	"github.com/cometbft/cometbft/crypto"
	cmted25519 "github.com/cometbft/cometbft/crypto/ed25519"
	cmtproto "github.com/cometbft/cometbft/proto/tendermint/types"
	cmttypes "github.com/cometbft/cometbft/types"

	clienttypes "github.com/bianjieai/tibc-go/modules/tibc/core/02-client/types"
	commitmenttypes "github.com/bianjieai/tibc-go/modules/tibc/core/23-commitment/types"
	tmclient "github.com/bianjieai/tibc-go/modules/tibc/light-clients/07-tendermint/types"

	"tibcsim/world"
)

// Rand is a tiny deterministic stream (splitmix64), independent of math/rand.
type Rand struct{ x uint64 }

func NewRand(seed uint64) *Rand { return &Rand{x: seed} }

func (r *Rand) U64() uint64 {
	r.x += 0x9e3779b97f4a7c15
	z := r.x
	z = (z ^ (z >> 30)) * 0xbf58476d1ce4e5b9
	z = (z ^ (z >> 27)) * 0x94d049bb133111eb
	return z ^ (z >> 31)
}

// Intn returns a value in [0,n) (0 for n<=0).
func (r *Rand) Intn(n int) int {
	if n <= 0 {
		return 0
	}
	return int(r.U64() % uint64(n))
}

// Range returns a value in [lo,hi].
func (r *Rand) Range(lo, hi int64) int64 {
	if hi <= lo {
		return lo
	}
	return lo + int64(r.U64()%uint64(hi-lo+1))
}

// Config fixes a virtual chain.
type Config struct {
	ChainID   string        // chain id written into headers (== tibc chain name of its clients)
	Seed      uint64        // everything else derives from it
	MaxHeight int64         // heights 1..MaxHeight exist (default 200)
	Start     time.Time     // time of block 1
	GapScale  time.Duration // typical distance between two blocks (default 1 min)
	WildGaps  bool          // also mix in absolute gaps of seconds / hours / days
	MaxVals   int           // validators per set: 1..MaxVals (default 7)
	ChangePct int           // probability (percent) that Vals(h+1) != Vals(h) (default 20)
}

// PoolSize is the number of validator keys a chain owns.  Two disjoint full
// sets fit into it.
const PoolSize = 14

// Block is what a light client can learn about one height.
type Block struct {
	Height   int64
	Time     time.Time
	AppHash  []byte
	Vals     *cmttypes.ValidatorSet // signs this height
	NextVals *cmttypes.ValidatorSet // == Vals of Height+1
	Changed  bool                   // NextVals differs from Vals
	Disjoint bool                   // NextVals shares no member with Vals
}

// Chain is a lazily generated virtual chain.
type Chain struct {
	Cfg    Config
	rng    *Rand
	keys   []cmted25519.PrivKey      // the pool
	byAddr map[string]crypto.PrivKey // address string -> key (pool + forger keys)
	sets   map[int64]*cmttypes.ValidatorSet
	member map[int64][]int // pool indices of the set at height h
	times  map[int64]time.Time
	apps   map[int64][]byte
	gen    int64 // sets exist for 1..gen+1, times/apps for 1..gen
	forger []cmted25519.PrivKey
}

// New creates the chain (nothing is generated yet except the key pool).
func New(cfg Config) *Chain {
	if cfg.MaxHeight <= 0 {
		cfg.MaxHeight = 200
	}
	if cfg.GapScale <= 0 {
		cfg.GapScale = time.Minute
	}
	if cfg.MaxVals <= 0 || cfg.MaxVals > 7 {
		cfg.MaxVals = 7
	}
	if cfg.ChangePct <= 0 {
		cfg.ChangePct = 20
	}
	if cfg.Start.IsZero() {
		cfg.Start = world.BaseTime
	}
	c := &Chain{
		Cfg: cfg, rng: NewRand(cfg.Seed ^ 0x7d5c3a1e9b2f4c11), byAddr: map[string]crypto.PrivKey{},
		sets: map[int64]*cmttypes.ValidatorSet{}, member: map[int64][]int{},
		times: map[int64]time.Time{}, apps: map[int64][]byte{},
	}
	for i := 0; i < PoolSize; i++ {
		k := cmted25519.GenPrivKeyFromSecret([]byte(fmt.Sprintf("tmchain/%s/%d/val/%d", cfg.ChainID, cfg.Seed, i)))
		c.keys = append(c.keys, k)
		c.byAddr[k.PubKey().Address().String()] = k
	}
	for i := 0; i < 4; i++ {
		k := cmted25519.GenPrivKeyFromSecret([]byte(fmt.Sprintf("tmchain/%s/%d/forger/%d", cfg.ChainID, cfg.Seed, i)))
		c.forger = append(c.forger, k)
		c.byAddr[k.PubKey().Address().String()] = k
	}
	return c
}

// Signers maps validator address strings to private keys (all keys the chain
// and its forgers own).
func (c *Chain) Signers() map[string]crypto.PrivKey { return c.byAddr }

// ForgerKey returns one of the keys that never belong to an honest set.
func (c *Chain) ForgerKey(i int) cmted25519.PrivKey {
	if i < 0 {
		i = -i
	}
	return c.forger[i%len(c.forger)]
}

// Revision is the revision number encoded in the chain id (0 if none).
func (c *Chain) Revision() uint64 { return clienttypes.ParseChainID(c.Cfg.ChainID) }

// drawPower draws a voting power in one of several styles.
func (c *Chain) drawPower(style int) int64 {
	switch style {
	case 0: // all equal
		return 1
	case 1: // small
		return c.rng.Range(1, 10)
	case 2: // medium
		return c.rng.Range(1, 1000)
	case 3: // huge
		return c.rng.Range(1_000_000_000, 1<<50)
	default: // mixed magnitudes: very skewed sets
		switch c.rng.Intn(3) {
		case 0:
			return 1
		case 1:
			return c.rng.Range(1, 100)
		default:
			return c.rng.Range(1_000_000, 1_000_000_000_000)
		}
	}
}

func (c *Chain) makeSet(members []int, powers []int64) *cmttypes.ValidatorSet {
	vs := make([]*cmttypes.Validator, len(members))
	for i, m := range members {
		vs[i] = cmttypes.NewValidator(c.keys[m].PubKey(), powers[i])
	}
	return cmttypes.NewValidatorSet(vs)
}

func powersOf(set *cmttypes.ValidatorSet, keys []cmted25519.PrivKey, members []int) []int64 {
	out := make([]int64, len(members))
	for i, m := range members {
		_, v := set.GetByAddress(keys[m].PubKey().Address())
		if v != nil {
			out[i] = v.VotingPower
		} else {
			out[i] = 1
		}
	}
	return out
}

func (c *Chain) freeMembers(used []int) []int {
	in := map[int]bool{}
	for _, m := range used {
		in[m] = true
	}
	var out []int
	for i := 0; i < PoolSize; i++ {
		if !in[i] {
			out = append(out, i)
		}
	}
	return out
}

// genesisSet draws the set of height 1.
func (c *Chain) genesisSet() ([]int, *cmttypes.ValidatorSet) {
	n := int(c.rng.Range(1, int64(c.Cfg.MaxVals)))
	perm := c.perm()
	members := append([]int(nil), perm[:n]...)
	style := c.rng.Intn(5)
	powers := make([]int64, n)
	for i := range powers {
		powers[i] = c.drawPower(style)
	}
	return members, c.makeSet(members, powers)
}

func (c *Chain) perm() []int {
	p := make([]int, PoolSize)
	for i := range p {
		p[i] = i
	}
	for i := PoolSize - 1; i > 0; i-- {
		j := c.rng.Intn(i + 1)
		p[i], p[j] = p[j], p[i]
	}
	return p
}

// nextSet derives the set of the following height (possibly unchanged).
func (c *Chain) nextSet(members []int, cur *cmttypes.ValidatorSet) ([]int, *cmttypes.ValidatorSet, bool) {
	if c.rng.Intn(100) >= c.Cfg.ChangePct {
		return members, cur, false
	}
	powers := powersOf(cur, c.keys, members)
	ms := append([]int(nil), members...)
	kind := c.rng.Intn(7)
	switch kind {
	case 0: // one validator gets another power
		i := c.rng.Intn(len(ms))
		if c.rng.Intn(2) == 0 {
			powers[i] += c.rng.Range(1, 3)
		} else {
			powers[i] = c.drawPower(c.rng.Intn(5))
		}
	case 1: // one joins
		if free := c.freeMembers(ms); len(ms) < c.Cfg.MaxVals && len(free) > 0 {
			ms = append(ms, free[c.rng.Intn(len(free))])
			powers = append(powers, c.drawPower(c.rng.Intn(5)))
		} else {
			powers[c.rng.Intn(len(ms))] += 1
		}
	case 2: // one leaves
		if len(ms) > 1 {
			i := c.rng.Intn(len(ms))
			ms = append(ms[:i], ms[i+1:]...)
			powers = append(powers[:i], powers[i+1:]...)
		} else {
			powers[0] += 1
		}
	case 3: // completely different members
		free := c.freeMembers(ms)
		n := int(c.rng.Range(1, int64(c.Cfg.MaxVals)))
		if n > len(free) {
			n = len(free)
		}
		style := c.rng.Intn(5)
		ms, powers = nil, nil
		for i := 0; i < n; i++ {
			j := c.rng.Intn(len(free))
			ms = append(ms, free[j])
			free = append(free[:j], free[j+1:]...)
			powers = append(powers, c.drawPower(style))
		}
	case 4: // one member swapped for a new one with the same power
		if free := c.freeMembers(ms); len(free) > 0 {
			ms[c.rng.Intn(len(ms))] = free[c.rng.Intn(len(free))]
		}
	case 5: // all powers redrawn
		style := c.rng.Intn(5)
		for i := range powers {
			powers[i] = c.drawPower(style)
		}
	default: // a newcomer with overwhelming power
		if free := c.freeMembers(ms); len(ms) < c.Cfg.MaxVals && len(free) > 0 {
			var sum int64
			for _, p := range powers {
				sum += p
			}
			if sum > 1<<52 {
				sum = 1 << 52
			}
			ms = append(ms, free[c.rng.Intn(len(free))])
			powers = append(powers, sum*c.rng.Range(1, 4))
		} else {
			powers[c.rng.Intn(len(ms))] += 2
		}
	}
	ns := c.makeSet(ms, powers)
	return ms, ns, string(ns.Hash()) != string(cur.Hash())
}

func (c *Chain) drawGap() time.Duration {
	g := c.Cfg.GapScale
	var d time.Duration
	roll := c.rng.Intn(100)
	switch {
	case c.Cfg.WildGaps && roll < 8: // seconds
		d = time.Duration(c.rng.Range(1, 60)) * time.Second
	case c.Cfg.WildGaps && roll < 12: // minutes to hours
		d = time.Duration(c.rng.Range(60, 6*3600)) * time.Second
	case c.Cfg.WildGaps && roll < 13: // days
		d = time.Duration(c.rng.Range(24*3600, 3*24*3600)) * time.Second
	case roll < 80: // around the scale
		d = time.Duration(c.rng.Range(int64(g)/5, 2*int64(g)))
	case roll < 93: // short
		d = time.Duration(c.rng.Range(int64(g)/50, int64(g)/5))
	default: // long
		d = time.Duration(c.rng.Range(2*int64(g), 10*int64(g)))
	}
	// always a non-zero sub-second part
	d = d - d%time.Second + time.Duration(c.rng.Range(1, 999_999_999))
	if d <= 0 {
		d = time.Nanosecond
	}
	return d
}

// ensure generates everything up to height h (clamped to MaxHeight).
func (c *Chain) ensure(h int64) {
	if h > c.Cfg.MaxHeight {
		h = c.Cfg.MaxHeight
	}
	for c.gen < h {
		n := c.gen + 1
		if n == 1 {
			c.member[1], c.sets[1] = c.genesisSet()
			c.times[1] = c.Cfg.Start
		} else {
			c.times[n] = c.times[n-1].Add(c.drawGap())
		}
		app := make([]byte, 32)
		for i := 0; i < 32; i += 8 {
			v := c.rng.U64()
			for k := 0; k < 8; k++ {
				app[i+k] = byte(v >> (8 * k))
			}
		}
		c.apps[n] = app
		c.member[n+1], c.sets[n+1], _ = c.nextSet(c.member[n], c.sets[n])
		c.gen = n
	}
}

// Has tells whether height h exists on the chain.
func (c *Chain) Has(h int64) bool { return h >= 1 && h <= c.Cfg.MaxHeight }

// Block returns height h (nil outside 1..MaxHeight).
func (c *Chain) Block(h int64) *Block {
	if !c.Has(h) {
		return nil
	}
	c.ensure(h)
	b := &Block{Height: h, Time: c.times[h], AppHash: c.apps[h], Vals: c.sets[h], NextVals: c.sets[h+1]}
	b.Changed = string(b.Vals.Hash()) != string(b.NextVals.Hash())
	b.Disjoint = true
	for _, v := range b.NextVals.Validators {
		if b.Vals.HasAddress(v.Address) {
			b.Disjoint = false
		}
	}
	return b
}

// TimeOf is Block(h).Time (zero time outside the chain).
func (c *Chain) TimeOf(h int64) time.Time {
	if b := c.Block(h); b != nil {
		return b.Time
	}
	return time.Time{}
}

// HeadBefore returns the greatest height whose block time is strictly before t
// (0 if none).
func (c *Chain) HeadBefore(t time.Time) int64 {
	c.ensure(c.Cfg.MaxHeight)
	lo, hi := int64(0), c.Cfg.MaxHeight
	for lo < hi {
		mid := (lo + hi + 1) / 2
		if c.times[mid].Before(t) {
			lo = mid
		} else {
			hi = mid - 1
		}
	}
	return lo
}

// ---- headers ----

// TrustedMode says which validator set a relayer puts into TrustedValidators.
type TrustedMode int

const (
	TrustedRight       TrustedMode = iota // NextVals of the trusted height
	TrustedWrongSet                       // the set of another height (different hash) or a made-up one
	TrustedWrongPowers                    // right members, one power off
	TrustedLieTotal                       // right set, but the proto's total_voting_power field lies
	TrustedCurrentVals                    // Vals (not NextVals) of the trusted height
)

func (m TrustedMode) String() string {
	return [...]string{"right", "wrong-set", "wrong-powers", "lie-total", "vals-not-next"}[m]
}

// HeaderReq describes the 07-tendermint Header a relayer wants to submit.
// Zero values mean "as on the chain".
type HeaderReq struct {
	Height        int64
	TrustedHeight clienttypes.Height
	TrustedMode   TrustedMode
	TrustedOf     int64            // chain height whose NextVals are supplied as trusted validators (0 = TrustedHeight.RevisionHeight)
	Votes         []world.SignSpec // per index of the header's own set; nil = everybody commits

	// perturbations
	Time             *time.Time             // header (and vote) time
	HeaderChainID    string                 // chain id written into the header and signed for
	OwnSet           *cmttypes.ValidatorSet // forged validator set (ValidatorsHash follows it)
	ValsHashMismatch bool                   // header.ValidatorsHash := hash of another set than the supplied one
	SuppliedSet      *cmttypes.ValidatorSet // ValidatorSet field differs from the set that signed
	AppHash          []byte
	NextValsHash     []byte
	CommitOtherBlock bool // commit taken from a sibling header (other app hash)
	CommitHeightOff  int64
	LieOwnTotal      bool // ValidatorSet.total_voting_power lies
}

// OwnSetOf returns the validator set that will sign the header of r.
func (c *Chain) OwnSetOf(r HeaderReq) *cmttypes.ValidatorSet {
	if r.OwnSet != nil {
		return r.OwnSet
	}
	h := r.Height
	if h < 1 {
		h = 1
	}
	if h > c.Cfg.MaxHeight {
		h = c.Cfg.MaxHeight
	}
	return c.Block(h).Vals
}

// TrustedSetOf returns the validator set a relayer would supply for mode m
// when trusting chain height th.
func (c *Chain) TrustedSetOf(th int64, m TrustedMode, salt uint64) *cmttypes.ValidatorSet {
	if th < 1 {
		th = 1
	}
	if th > c.Cfg.MaxHeight {
		th = c.Cfg.MaxHeight
	}
	b := c.Block(th)
	right := b.NextVals
	switch m {
	case TrustedCurrentVals:
		return b.Vals
	case TrustedWrongSet:
		// nearest other height whose NextVals hash differs; else a made-up set
		for d := int64(1); d <= c.Cfg.MaxHeight; d++ {
			for _, o := range []int64{th + d, th - d} {
				if ob := c.Block(o); ob != nil && string(ob.NextVals.Hash()) != string(right.Hash()) {
					return ob.NextVals
				}
			}
		}
		return cmttypes.NewValidatorSet([]*cmttypes.Validator{cmttypes.NewValidator(c.ForgerKey(int(salt%4)).PubKey(), 1)})
	case TrustedWrongPowers:
		vs := make([]*cmttypes.Validator, len(right.Validators))
		k := int(salt % uint64(len(right.Validators)))
		for i, v := range right.Validators {
			p := v.VotingPower
			if i == k {
				if salt&(1<<20) != 0 && p > 1 {
					p--
				} else {
					p++
				}
			}
			vs[i] = cmttypes.NewValidator(v.PubKey, p)
		}
		return cmttypes.NewValidatorSet(vs)
	}
	return right
}

// Header builds the client message.
func (c *Chain) Header(r HeaderReq) (*tmclient.Header, error) {
	h := r.Height
	src := h
	if src < 1 {
		src = 1
	}
	if src > c.Cfg.MaxHeight {
		src = c.Cfg.MaxHeight
	}
	b := c.Block(src)
	own := c.OwnSetOf(r)
	t := b.Time
	if r.Time != nil {
		t = *r.Time
	}
	chainID := c.Cfg.ChainID
	if r.HeaderChainID != "" {
		chainID = r.HeaderChainID
	}
	app := b.AppHash
	if r.AppHash != nil {
		app = r.AppHash
	}
	spec := world.HeaderSpec{
		ChainID: chainID, Height: h, Time: t, AppHash: app, Vals: own, NextVals: b.NextVals,
		Signers: c.byAddr, Votes: r.Votes, NextValidatorsHash: r.NextValsHash,
	}
	if r.ValsHashMismatch {
		other := c.TrustedSetOf(src, TrustedWrongSet, uint64(h))
		spec.ValidatorsHash = other.Hash()
	}
	sh, err := world.BuildSignedHeader(spec)
	if err != nil {
		return nil, err
	}
	if r.CommitOtherBlock {
		spec2 := spec
		other := append([]byte(nil), app...)
		if len(other) == 0 {
			other = []byte{0x42}
		}
		other[0] ^= 0x42
		spec2.AppHash = other
		sh2, err := world.BuildSignedHeader(spec2)
		if err != nil {
			return nil, err
		}
		sh = &cmtproto.SignedHeader{Header: sh.Header, Commit: sh2.Commit}
	}
	if r.CommitHeightOff != 0 {
		sh.Commit.Height += r.CommitHeightOff
	}
	supplied := own
	if r.SuppliedSet != nil {
		supplied = r.SuppliedSet
	}
	vsp, err := supplied.ToProto()
	if err != nil {
		return nil, err
	}
	if r.LieOwnTotal {
		vsp.TotalVotingPower = 1
	}
	th := r.TrustedOf
	if th == 0 {
		th = int64(r.TrustedHeight.RevisionHeight)
	}
	tset := c.TrustedSetOf(th, r.TrustedMode, uint64(h)*2654435761+uint64(th))
	tvp, err := tset.ToProto()
	if err != nil {
		return nil, err
	}
	if r.TrustedMode == TrustedLieTotal {
		tvp.TotalVotingPower = 1
	}
	return &tmclient.Header{SignedHeader: sh, ValidatorSet: vsp, TrustedHeight: r.TrustedHeight, TrustedValidators: tvp}, nil
}

// ConsensusState is what a client created at height h holds.
func (c *Chain) ConsensusState(h int64) (*tmclient.ConsensusState, error) {
	if !c.Has(h) {
		return nil, fmt.Errorf("tmchain %s has no height %d", c.Cfg.ChainID, h)
	}
	b := c.Block(h)
	return &tmclient.ConsensusState{
		Timestamp: b.Time, Root: commitmenttypes.NewMerkleRoot(b.AppHash), NextValidatorsHash: b.NextVals.Hash(),
	}, nil
}
