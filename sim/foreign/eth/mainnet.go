// Package eth is the simulator's model of the *foreign* Ethereum proof-of-work
// chain a tibc ETH light client follows: a seeded header tree (EthChain), the
// recorded mainnet headers, header perturbations and an independent reference
// model of header acceptance (EthHeaderModel).
//
// Nothing in this package calls into the light client under test.  Hashes,
// base fees and difficulties are computed with go-ethereum v1.10.17
// (core/types, consensus/misc, consensus/ethash); the reference model states
// the same rules a second time straight from the EIPs, and the two are
// cross-checked on every generated header.
package eth

import (
	_ "embed"
	"encoding/json"
	"fmt"
	"math/big"

	"github.com/ethereum/go-ethereum/common"
	"github.com/ethereum/go-ethereum/core/types"
)

//go:embed testdata/update_headers.json
var mainnetJSON []byte

// jsonHeader mirrors the layout of testdata/update_headers.json (numbers are
// plain JSON numbers, extraData is base64).
type jsonHeader struct {
	ParentHash  common.Hash      `json:"parentHash"`
	UncleHash   common.Hash      `json:"sha3Uncles"`
	Coinbase    common.Address   `json:"miner"`
	Root        common.Hash      `json:"stateRoot"`
	TxHash      common.Hash      `json:"transactionsRoot"`
	ReceiptHash common.Hash      `json:"receiptsRoot"`
	Bloom       types.Bloom      `json:"logsBloom"`
	Difficulty  *big.Int         `json:"difficulty"`
	Number      *big.Int         `json:"number"`
	GasLimit    uint64           `json:"gasLimit"`
	GasUsed     uint64           `json:"gasUsed"`
	Time        uint64           `json:"timestamp"`
	Extra       []byte           `json:"extraData"`
	MixDigest   common.Hash      `json:"mixHash"`
	Nonce       types.BlockNonce `json:"nonce"`
	BaseFee     *big.Int         `json:"baseFeePerGas"`
}

// MainnetHeaders returns the recorded consecutive mainnet headers
// (13286181 … 13286190, London rules).  The parent links between consecutive
// entries are verified, which also validates the decoding and the hash
// function used by the simulator.
func MainnetHeaders() ([]*types.Header, error) {
	var js []jsonHeader
	if err := json.Unmarshal(mainnetJSON, &js); err != nil {
		return nil, fmt.Errorf("mainnet headers: %w", err)
	}
	if len(js) < 2 {
		return nil, fmt.Errorf("mainnet headers: only %d recorded", len(js))
	}
	out := make([]*types.Header, 0, len(js))
	for i := range js {
		j := &js[i]
		if j.Difficulty == nil || j.Number == nil || j.BaseFee == nil {
			return nil, fmt.Errorf("mainnet header %d: missing numeric field", i)
		}
		out = append(out, &types.Header{
			ParentHash: j.ParentHash, UncleHash: j.UncleHash, Coinbase: j.Coinbase, Root: j.Root,
			TxHash: j.TxHash, ReceiptHash: j.ReceiptHash, Bloom: j.Bloom, Difficulty: j.Difficulty,
			Number: j.Number, GasLimit: j.GasLimit, GasUsed: j.GasUsed, Time: j.Time, Extra: j.Extra,
			MixDigest: j.MixDigest, Nonce: j.Nonce, BaseFee: j.BaseFee,
		})
	}
	for i := 1; i < len(out); i++ {
		if out[i].ParentHash != out[i-1].Hash() {
			return nil, fmt.Errorf("mainnet header %d: parent hash %s is not the hash of header %d (%s)", i, out[i].ParentHash, i-1, out[i-1].Hash())
		}
		if out[i].Number.Uint64() != out[i-1].Number.Uint64()+1 {
			return nil, fmt.Errorf("mainnet header %d: number not consecutive", i)
		}
	}
	return out, nil
}

// CopyHeader is a deep copy.
func CopyHeader(h *types.Header) *types.Header { return types.CopyHeader(h) }
