package eth

import (
	"encoding/binary"
	"fmt"
	"math/big"
	"time"

	"github.com/ethereum/go-ethereum/common"
	"github.com/ethereum/go-ethereum/consensus/ethash"
	"github.com/ethereum/go-ethereum/consensus/misc"
	"github.com/ethereum/go-ethereum/core/types"
	"github.com/ethereum/go-ethereum/crypto"
	"github.com/ethereum/go-ethereum/params"

	"tibcsim/chooser"
)

// Node is one header of the simulated Ethereum block tree.
type Node struct {
	ID       int
	H        *types.Header
	Hash     common.Hash
	Parent   *Node
	Children []*Node
	TD       *big.Int // total difficulty above the root
	Kind     string   // "honest", or the perturbation kind of a header that entered the tree
}

func (n *Node) Number() uint64 { return n.H.Number.Uint64() }

func (n *Node) String() string {
	return fmt.Sprintf("#%d(%d/%s)", n.ID, n.Number(), n.Hash.Hex()[2:10])
}

// Chain is the EthChain model: a header tree grown from the client's initial
// header under mainnet's London rules.
type Chain struct {
	Cfg    *params.ChainConfig
	Root   *Node
	Nodes  []*Node
	ByHash map[common.Hash]*Node
}

func NewChain(root *types.Header) *Chain {
	c := &Chain{Cfg: params.MainnetChainConfig, ByHash: map[common.Hash]*Node{}}
	r := &Node{ID: 0, H: CopyHeader(root), Hash: root.Hash(), TD: new(big.Int), Kind: "root"}
	c.Root = r
	c.Nodes = []*Node{r}
	c.ByHash[r.Hash] = r
	return c
}

// Insert adds a header whose parent is in the tree (idempotent).
func (c *Chain) Insert(h *types.Header, kind string) (*Node, error) {
	hash := h.Hash()
	if n, ok := c.ByHash[hash]; ok {
		return n, nil
	}
	p, ok := c.ByHash[h.ParentHash]
	if !ok {
		return nil, fmt.Errorf("eth chain: parent %s of %s is not in the tree", h.ParentHash, hash)
	}
	n := &Node{ID: len(c.Nodes), H: CopyHeader(h), Hash: hash, Parent: p, Kind: kind}
	n.TD = new(big.Int).Set(p.TD)
	if h.Difficulty != nil {
		n.TD.Add(n.TD, h.Difficulty)
	}
	p.Children = append(p.Children, n)
	c.Nodes = append(c.Nodes, n)
	c.ByHash[hash] = n
	return n, nil
}

// Leaves returns the nodes without children, in creation order.
func (c *Chain) Leaves() []*Node {
	var out []*Node
	for _, n := range c.Nodes {
		if len(n.Children) == 0 {
			out = append(out, n)
		}
	}
	return out
}

func fill(seed uint64, tag byte, out []byte) {
	var b [9]byte
	binary.BigEndian.PutUint64(b[:], seed)
	b[8] = tag
	for i := 0; i < len(out); i += 32 {
		b[8] = tag + byte(i/32)*16
		copy(out[i:], crypto.Keccak256(b[:]))
	}
}

// NewChild builds an honest child header of p (not inserted): timestamp =
// parent + 1..30 s, gas limit inside the 1/1024 bound, gas used ≤ limit, base
// fee by go-ethereum's misc.CalcBaseFee and difficulty by go-ethereum's
// ethash.CalcDifficulty under the mainnet (London) configuration.  Nonce and
// mix digest are arbitrary (the header is not mined).
func (c *Chain) NewChild(ch *chooser.Chooser, p *Node) *types.Header {
	salt := ch.Uint64()
	h := &types.Header{ParentHash: p.Hash, Number: new(big.Int).Add(p.H.Number, big.NewInt(1))}
	h.Time = p.H.Time + uint64(ch.Range(1, 30))
	// gas limit: unchanged, at the edge of the bound (valid), or anywhere inside
	bound := p.H.GasLimit / 1024
	h.GasLimit = p.H.GasLimit
	if bound > 1 {
		switch ch.Pick([]int{4, 1, 1, 3}) {
		case 1:
			h.GasLimit = p.H.GasLimit + bound - 1
		case 2:
			h.GasLimit = p.H.GasLimit - (bound - 1)
		case 3:
			d := uint64(ch.Int(int(bound)))
			if ch.Bool(1, 2) {
				h.GasLimit = p.H.GasLimit + d
			} else {
				h.GasLimit = p.H.GasLimit - d
			}
		}
	} else {
		ch.Pick([]int{1})
	}
	if h.GasLimit < 5000 {
		h.GasLimit = p.H.GasLimit
	}
	// gas used: empty, exactly the target, full, or anything
	switch ch.Pick([]int{1, 2, 2, 5}) {
	case 0:
		h.GasUsed = 0
	case 1:
		h.GasUsed = h.GasLimit / 2
	case 2:
		h.GasUsed = h.GasLimit
	default:
		h.GasUsed = ch.Uint64() % (h.GasLimit + 1)
	}
	// uncles present in about one block of six (changes the child's difficulty)
	if ch.Bool(1, 6) {
		fill(salt, 1, h.UncleHash[:])
	} else {
		h.UncleHash = types.EmptyUncleHash
	}
	fill(salt, 2, h.Coinbase[:])
	fill(salt, 3, h.Root[:])
	fill(salt, 4, h.TxHash[:])
	fill(salt, 5, h.ReceiptHash[:])
	fill(salt, 6, h.MixDigest[:])
	fill(salt, 7, h.Nonce[:])
	var bloom [256]byte
	fill(salt, 8, bloom[:])
	for i := range bloom { // sparse bloom
		bloom[i] &= bloom[(i+7)%256] & bloom[(i+13)%256]
	}
	h.Bloom = types.BytesToBloom(bloom[:])
	ex := make([]byte, ch.Int(33))
	fill(salt, 9, ex)
	h.Extra = ex
	c.Finish(h, p.H)
	return h
}

// Finish (re)computes the fields prescribed by the parent: base fee and difficulty.
func (c *Chain) Finish(h, parent *types.Header) {
	h.BaseFee = misc.CalcBaseFee(c.Cfg, parent)
	h.Difficulty = ethash.CalcDifficulty(c.Cfg, h.Time, parent)
}

// SelfCheck compares go-ethereum's prescribed values with the reference
// model's own statement of the rules for an honest child (machinery check).
func SelfCheck(h, parent *types.Header) error {
	if want := ExpectedBaseFee(parent); h.BaseFee.Cmp(want) != 0 {
		return fmt.Errorf("eth model: base fee rule disagrees with go-ethereum: model %s, geth %s", want, h.BaseFee)
	}
	if h.Time > parent.Time {
		if want := ExpectedDifficulty(h.Time, parent); h.Difficulty.Cmp(want) != 0 {
			return fmt.Errorf("eth model: difficulty rule disagrees with go-ethereum: model %s, geth %s", want, h.Difficulty)
		}
	}
	return nil
}

// Perturbation kinds of an otherwise valid child.
const (
	PertTimeNotAfter   = "time-not-after-parent"
	PertTimeFuture     = "time-future"
	PertTimeBoundary   = "time-future-boundary"
	PertGasLimitOut    = "gas-limit-out-of-bound"
	PertGasLimitMin    = "gas-limit-below-min"
	PertGasUsedOver    = "gas-used-over-limit"
	PertBaseFee        = "base-fee"
	PertDifficulty     = "difficulty"
	PertUnknownParent  = "unknown-parent"
	PertNumber         = "wrong-number"
	PertExtraLong      = "extra-too-long"
	PertMalformed      = "malformed-number"
	PertRevision       = "nonzero-revision"
	PertSameRootSister = "same-root-sibling" // valid: a second child with the same state root
)

var PertKinds = []string{PertTimeNotAfter, PertTimeFuture, PertTimeBoundary, PertGasLimitOut, PertGasLimitMin,
	PertGasUsedOver, PertBaseFee, PertDifficulty, PertUnknownParent, PertNumber, PertExtraLong, PertMalformed,
	PertRevision, PertSameRootSister}

// Perturb turns the honest child h of p into a submission of the given kind.
// hostNext is the expected time of the host block that will carry it.  The
// result may still be valid (the reference model decides, not the label).
func (c *Chain) Perturb(ch *chooser.Chooser, kind string, h *types.Header, p *Node, hostNext time.Time) *Submission {
	h = CopyHeader(h)
	sub := func() *Submission { return NewSubmission(h, kind) }
	switch kind {
	case PertTimeNotAfter:
		back := uint64(0)
		if ch.Bool(1, 2) {
			back = uint64(ch.Range(1, 40))
		}
		if back > p.H.Time {
			back = p.H.Time
		}
		h.Time = p.H.Time - back
		if ch.Bool(1, 2) { // keep every other rule satisfied as far as it is defined
			h.Difficulty = ethash.CalcDifficulty(c.Cfg, h.Time, p.H)
		}
	case PertTimeFuture, PertTimeBoundary:
		var ahead int
		if kind == PertTimeFuture {
			ahead = []int{17, 18, 20, 60, 3600, 1 << 30}[ch.Int(6)]
		} else {
			ahead = ch.Range(13, 17)
		}
		t := uint64(hostNext.Unix()) + uint64(ahead)
		if t <= p.H.Time {
			t = p.H.Time + 1
		}
		h.Time = t
		h.Difficulty = ethash.CalcDifficulty(c.Cfg, h.Time, p.H)
	case PertGasLimitOut:
		bound := p.H.GasLimit / 1024
		d := bound + uint64([]int{0, 1, 2, 1000, 1 << 20}[ch.Int(5)])
		if ch.Bool(1, 2) || d > p.H.GasLimit {
			h.GasLimit = p.H.GasLimit + d
		} else {
			h.GasLimit = p.H.GasLimit - d
		}
		if h.GasUsed > h.GasLimit {
			h.GasUsed = h.GasLimit
		}
	case PertGasLimitMin:
		h.GasLimit = uint64([]int{0, 1, 4999, 5000}[ch.Int(4)])
		if h.GasUsed > h.GasLimit {
			h.GasUsed = h.GasLimit
		}
	case PertGasUsedOver:
		h.GasUsed = h.GasLimit + uint64([]int{1, 2, 1 << 30}[ch.Int(3)])
	case PertBaseFee:
		switch ch.Int(5) {
		case 0:
			h.BaseFee = new(big.Int).Add(h.BaseFee, big.NewInt(1))
		case 1:
			if h.BaseFee.Sign() > 0 {
				h.BaseFee = new(big.Int).Sub(h.BaseFee, big.NewInt(1))
			} else {
				h.BaseFee = big.NewInt(7)
			}
		case 2:
			h.BaseFee = new(big.Int).Set(p.H.BaseFee) // unchanged although the parent was not at target (may be valid)
		case 3:
			h.BaseFee = new(big.Int)
		default:
			h.BaseFee = new(big.Int).SetUint64(ch.Uint64() >> 20)
		}
	case PertDifficulty:
		switch ch.Int(6) {
		case 0:
			h.Difficulty = new(big.Int).Add(h.Difficulty, big.NewInt(1))
		case 1:
			h.Difficulty = new(big.Int).Sub(h.Difficulty, big.NewInt(1))
		case 2:
			h.Difficulty = new(big.Int).Set(p.H.Difficulty) // may be valid
		case 3:
			h.Difficulty = big.NewInt(1)
		case 4:
			h.Difficulty = new(big.Int)
		default: // value of another timestamp
			h.Difficulty = ethash.CalcDifficulty(c.Cfg, h.Time+uint64(ch.Range(9, 90)), p.H)
		}
	case PertUnknownParent:
		if ch.Bool(1, 2) {
			fill(ch.Uint64(), 11, h.ParentHash[:])
		} else {
			h.ParentHash[ch.Int(32)] ^= 1 << uint(ch.Int(8))
		}
	case PertNumber:
		switch ch.Int(4) {
		case 0:
			h.Number = new(big.Int).Set(p.H.Number)
		case 1:
			h.Number = new(big.Int).Add(p.H.Number, big.NewInt(2))
		case 2:
			h.Number = new(big.Int).Sub(p.H.Number, big.NewInt(1))
		default:
			h.Number = new(big.Int)
		}
	case PertExtraLong:
		ex := make([]byte, ch.Range(33, 40))
		fill(ch.Uint64(), 12, ex)
		h.Extra = ex
	case PertMalformed:
		s := sub()
		bad := []string{"", "abc", "0x10", "-" + h.Difficulty.String(), "1e9", " 12"}[ch.Int(6)]
		if ch.Bool(1, 2) {
			s.DifficultyStr = bad
			s.H.Difficulty = nil
		} else {
			s.BaseFeeStr = bad
			s.H.BaseFee = nil
		}
		return s
	case PertRevision:
		s := sub()
		s.Rev = uint64(ch.Range(1, 3))
		return s
	case PertSameRootSister:
		if len(p.Children) > 0 {
			sis := p.Children[ch.Int(len(p.Children))]
			h.Root = sis.H.Root
			if ch.Bool(1, 2) { // identical but for the timestamp-dependent fields
				h.Time = sis.H.Time + 1
				h.Difficulty = ethash.CalcDifficulty(c.Cfg, h.Time, p.H)
			}
		}
	}
	return sub()
}

// CorruptSeal flips one bit of the nonce or of the mix digest of a mined header.
func CorruptSeal(ch *chooser.Chooser, h *types.Header) (*types.Header, string) {
	c := CopyHeader(h)
	if ch.Bool(1, 2) {
		c.Nonce[ch.Int(8)] ^= 1 << uint(ch.Int(8))
		return c, "nonce-bit"
	}
	c.MixDigest[ch.Int(32)] ^= 1 << uint(ch.Int(8))
	return c, "mix-digest-bit"
}
