package eth

import (
	"math/big"
	"time"

	"github.com/ethereum/go-ethereum/common"
	"github.com/ethereum/go-ethereum/core/types"
)

// Verdict of the reference model about one submitted header.
type Verdict int

const (
	Accept        Verdict = iota // the statement demands acceptance
	Reject                       // the statement demands refusal
	Unconstrained                // the statement leaves this input open (exact boundary)
)

func (v Verdict) String() string { return [...]string{"accept", "reject", "unconstrained"}[v] }

// Submission is a header as a relayer puts it on the wire for the client.
type Submission struct {
	H *types.Header // Difficulty / BaseFee are nil when the wire strings are not decimal numbers
	// Rev is the revision number of the tibc height carrying H.Number (0 for every honest relayer).
	Rev uint64
	// DifficultyStr / BaseFeeStr are the decimal strings on the wire.
	DifficultyStr, BaseFeeStr string
	// Kind labels how the submission was produced ("honest" or a perturbation kind).  The
	// model never looks at it.
	Kind string
}

// NewSubmission wraps a well-formed header.
func NewSubmission(h *types.Header, kind string) *Submission {
	s := &Submission{H: h, Kind: kind}
	if h.Difficulty != nil {
		s.DifficultyStr = h.Difficulty.String()
	}
	if h.BaseFee != nil {
		s.BaseFeeStr = h.BaseFee.String()
	}
	return s
}

// Constants of the rules, each taken from its specification.
var (
	// Yellow paper (4.3.4): ‖extraData‖ ≤ 32.
	maxExtra = 32
	// EIP-1559: gas limit may move by strictly less than parent/1024 and is at least 5000.
	gasLimitBoundDivisor = uint64(1024)
	minGasLimit          = uint64(5000)
	// EIP-1559: ELASTICITY_MULTIPLIER = 2, BASE_FEE_MAX_CHANGE_DENOMINATOR = 8.
	elasticity    = uint64(2)
	baseFeeChange = big.NewInt(8)
	// EIP-100 / Byzantium difficulty adjustment; EIP-3554 (London) delays the bomb by 9,700,000 blocks.
	diffBoundDivisor = big.NewInt(2048)
	minDifficulty    = big.NewInt(131072)
	londonBombDelay  = uint64(9_700_000)
	// Mainnet fork blocks between which the rule set above is the prescribed one.
	LondonBlock       = uint64(12_965_000)
	ArrowGlacierBlock = uint64(13_773_000)
	// Property statement: "not more than 15 seconds ahead of chain time".
	maxFuture = 15 * time.Second
	// geth/yellow paper: gas limit fits in 63 bits.
	maxGasLimit = uint64(0x7fffffffffffffff)
)

// Model is the EthHeaderModel: the set of headers the client has stored and the
// acceptance rule of property C18, stated independently of the implementation.
type Model struct {
	Stored map[common.Hash]*types.Header
	TD     map[common.Hash]*big.Int // total difficulty relative to the initial header
	Start  uint64                   // number of the client's initial header
	Order  []common.Hash            // acceptance order (Order[0] is the initial header)

	// CheckSeal says that the proof-of-work seal is part of the verdict (the
	// seal hook is off).  Seal validity is only known for the recorded mainnet
	// headers: Genuine lists their hashes; a header that equals a genuine one
	// except for nonce / mix digest carries an invalid seal.
	CheckSeal bool
	Genuine   map[common.Hash]bool
	unsealed  map[common.Hash]bool
}

func NewModel(initial *types.Header) *Model {
	m := &Model{Stored: map[common.Hash]*types.Header{}, TD: map[common.Hash]*big.Int{}, Start: initial.Number.Uint64(),
		Genuine: map[common.Hash]bool{}, unsealed: map[common.Hash]bool{}}
	h := initial.Hash()
	m.Stored[h] = CopyHeader(initial)
	m.TD[h] = new(big.Int)
	m.Order = append(m.Order, h)
	return m
}

// unsealedHash identifies a header up to its seal fields.
func unsealedHash(h *types.Header) common.Hash {
	c := CopyHeader(h)
	c.Nonce = types.BlockNonce{}
	c.MixDigest = common.Hash{}
	return c.Hash()
}

// AddGenuine registers a header recorded from mainnet (its seal is valid).
func (m *Model) AddGenuine(h *types.Header) {
	m.Genuine[h.Hash()] = true
	m.unsealed[unsealedHash(h)] = true
}

// Record notes that the client stored h (called for every header the client
// accepted, whatever the model thought of it, so that the model keeps
// describing the client's actual store).
func (m *Model) Record(h *types.Header) {
	hash := h.Hash()
	if _, ok := m.Stored[hash]; ok {
		return
	}
	m.Stored[hash] = CopyHeader(h)
	td := new(big.Int)
	if p, ok := m.TD[h.ParentHash]; ok {
		td.Set(p)
	}
	if h.Difficulty != nil {
		td.Add(td, h.Difficulty)
	}
	m.TD[hash] = td
	m.Order = append(m.Order, hash)
}

func (m *Model) Has(hash common.Hash) bool { _, ok := m.Stored[hash]; return ok }

// ExpectedBaseFee is EIP-1559's base fee of a child of parent (parent is a
// London block that is not the fork block).
func ExpectedBaseFee(parent *types.Header) *big.Int {
	target := parent.GasLimit / elasticity
	base := parent.BaseFee
	if target == 0 {
		return new(big.Int).Set(base)
	}
	t := new(big.Int).SetUint64(target)
	switch {
	case parent.GasUsed == target:
		return new(big.Int).Set(base)
	case parent.GasUsed > target:
		d := new(big.Int).SetUint64(parent.GasUsed - target)
		d.Mul(d, base)
		d.Quo(d, t)
		d.Quo(d, baseFeeChange)
		if d.Sign() == 0 {
			d.SetInt64(1)
		}
		return d.Add(d, base)
	default:
		d := new(big.Int).SetUint64(target - parent.GasUsed)
		d.Mul(d, base)
		d.Quo(d, t)
		d.Quo(d, baseFeeChange)
		r := new(big.Int).Sub(base, d)
		if r.Sign() < 0 {
			r.SetInt64(0)
		}
		return r
	}
}

// ExpectedDifficulty is the London (EIP-100 adjustment, EIP-3554 bomb delay)
// difficulty of a child of parent with timestamp t > parent.Time.
func ExpectedDifficulty(t uint64, parent *types.Header) *big.Int {
	// adj = max((2 if parent has uncles else 1) - (t - parent.t) // 9, -99)
	adj := int64(1)
	if parent.UncleHash != types.EmptyUncleHash {
		adj = 2
	}
	dt := (t - parent.Time) / 9
	if dt > 200 {
		dt = 200
	}
	adj -= int64(dt)
	if adj < -99 {
		adj = -99
	}
	d := new(big.Int).Quo(parent.Difficulty, diffBoundDivisor)
	d.Mul(d, big.NewInt(adj))
	d.Add(d, parent.Difficulty)
	if d.Cmp(minDifficulty) < 0 {
		d.Set(minDifficulty)
	}
	// bomb: fake_block_number = max(0, block.number - delay); + 2^(fake//100000 - 2)
	number := parent.Number.Uint64() + 1
	if number > londonBombDelay {
		period := (number - londonBombDelay) / 100000
		if period >= 2 {
			d.Add(d, new(big.Int).Lsh(big.NewInt(1), uint(period-2)))
		}
	}
	return d
}

func gasLimitWithinBound(parentLimit, limit uint64) bool {
	bound := parentLimit / gasLimitBoundDivisor
	if limit > parentLimit {
		return limit-parentLimit < bound
	}
	return parentLimit-limit < bound
}

// GasLimitOK is EIP-1559's rule for a London child of a London parent: the
// limit moves by strictly less than parent/1024 and is at least 5000.
func GasLimitOK(parentLimit, limit uint64) bool {
	return gasLimitWithinBound(parentLimit, limit) && limit >= minGasLimit
}

func decimal(s string) (*big.Int, bool) {
	if s == "" {
		return nil, false
	}
	for _, c := range s {
		if c < '0' || c > '9' {
			return nil, false
		}
	}
	return new(big.Int).SetString(s, 10)
}

// Judge states what property C18 demands for submission s arriving in a host
// block with time blockTime, given the headers stored so far.  reason names
// the (first) rule that is broken, or the context of an unconstrained case.
func (m *Model) Judge(s *Submission, blockTime time.Time) (Verdict, string) {
	h := s.H
	// --- well-formedness of the wire message
	diff, okD := decimal(s.DifficultyStr)
	fee, okF := decimal(s.BaseFeeStr)
	if !okD || !okF {
		return Reject, "malformed-number"
	}
	if h.Difficulty == nil || h.BaseFee == nil || diff.Cmp(h.Difficulty) != 0 || fee.Cmp(h.BaseFee) != 0 {
		return Reject, "malformed-number"
	}
	if len(h.Extra) > maxExtra {
		return Reject, "extra-too-long"
	}
	if h.GasLimit > maxGasLimit {
		return Reject, "gas-limit"
	}
	if h.GasUsed > h.GasLimit {
		return Reject, "gas-used-over-limit"
	}
	hash := h.Hash()
	// --- a header it already has is refused
	if m.Has(hash) {
		return Reject, "duplicate"
	}
	// --- its parent is a header it has stored
	parent, ok := m.Stored[h.ParentHash]
	if !ok {
		return Reject, "unknown-parent"
	}
	if h.Number == nil || !h.Number.IsUint64() || h.Number.Uint64() != parent.Number.Uint64()+1 {
		return Reject, "wrong-number"
	}
	// --- timestamp later than the parent's
	if h.Time <= parent.Time {
		return Reject, "time-not-after-parent"
	}
	// --- not more than 15 s ahead of chain time (header seconds vs. host nanoseconds:
	// the second around the bound is left open)
	timeOpen := false
	ahead := time.Duration(0)
	if ht := time.Unix(int64(h.Time), 0); ht.After(blockTime) {
		ahead = ht.Sub(blockTime)
	}
	switch {
	case ahead >= maxFuture+time.Second:
		return Reject, "time-future"
	case ahead > maxFuture-time.Second:
		timeOpen = true
	}
	// --- EIP-1559 gas limit and base fee
	if !GasLimitOK(parent.GasLimit, h.GasLimit) {
		if h.GasLimit < minGasLimit && gasLimitWithinBound(parent.GasLimit, h.GasLimit) {
			// only the "at least 5000" rule is broken
			return Reject, "gas-limit-minimum"
		}
		return Reject, "gas-limit"
	}
	if h.BaseFee.Cmp(ExpectedBaseFee(parent)) != 0 {
		return Reject, "base-fee"
	}
	// --- prescribed difficulty
	n := h.Number.Uint64()
	diffOpen := n <= LondonBlock || n >= ArrowGlacierBlock
	if !diffOpen && h.Difficulty.Cmp(ExpectedDifficulty(h.Time, parent)) != 0 {
		return Reject, "difficulty"
	}
	if h.Difficulty.Sign() <= 0 {
		return Reject, "difficulty"
	}
	// --- proof-of-work seal
	sealOpen := false
	if m.CheckSeal {
		switch {
		case m.Genuine[hash]:
		case m.unsealed[unsealedHash(h)]:
			return Reject, "seal"
		default:
			sealOpen = true
		}
	}
	// --- height revision: an Ethereum header has no revision; honest relayers use 0
	if s.Rev != 0 {
		return Unconstrained, "nonzero-revision"
	}
	switch {
	case timeOpen:
		return Unconstrained, "time-future-boundary"
	case diffOpen:
		return Unconstrained, "difficulty-rule-set"
	case sealOpen:
		return Unconstrained, "seal-unknown"
	}
	return Accept, ""
}

// Ancestry returns the stored headers from hash `tip` down to number `down`
// (inclusive) following parent links; ok is false when a link is missing.
func (m *Model) Ancestry(tip common.Hash, down uint64) (chain []*types.Header, ok bool) {
	cur, found := m.Stored[tip]
	if !found {
		return nil, false
	}
	for {
		chain = append(chain, cur)
		if cur.Number.Uint64() <= down {
			return chain, cur.Number.Uint64() == down
		}
		cur, found = m.Stored[cur.ParentHash]
		if !found {
			return chain, false
		}
	}
}

// OnChain reports whether header hash x lies on the parent-linked chain ending at tip.
func (m *Model) OnChain(tip, x common.Hash) bool {
	xh, ok := m.Stored[x]
	if !ok {
		return false
	}
	cur, ok := m.Stored[tip]
	for ok && cur.Number.Uint64() > xh.Number.Uint64() {
		cur, ok = m.Stored[cur.ParentHash]
	}
	return ok && cur.Hash() == x
}

// ForkPoint returns the number of the youngest common ancestor of a and b.
func (m *Model) ForkPoint(a, b common.Hash) (uint64, bool) {
	x, okx := m.Stored[a]
	y, oky := m.Stored[b]
	for okx && oky {
		switch {
		case x.Number.Uint64() > y.Number.Uint64():
			x, okx = m.Stored[x.ParentHash]
		case y.Number.Uint64() > x.Number.Uint64():
			y, oky = m.Stored[y.ParentHash]
		default:
			if x.Hash() == y.Hash() {
				return x.Number.Uint64(), true
			}
			x, okx = m.Stored[x.ParentHash]
			y, oky = m.Stored[y.ParentHash]
		}
	}
	return 0, false
}

// Heaviest returns the stored header with the greatest total difficulty
// (earliest accepted wins ties, as in Ethereum's fork choice).
func (m *Model) Heaviest() common.Hash {
	best := m.Order[0]
	for _, h := range m.Order[1:] {
		if m.TD[h].Cmp(m.TD[best]) > 0 {
			best = h
		}
	}
	return best
}
