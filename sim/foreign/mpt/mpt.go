// Package mpt models the state of an Ethereum-style counterparty chain as far
// as TIBC needs it: one contract account whose storage holds the packet
// commitments, acknowledgements and clean points, provable with real
// go-ethereum Merkle-Patricia tries (account proof + storage proof, as
// returned by eth_getProof).
package mpt

import (
	"encoding/json"
	"fmt"
	"math/big"
	"sort"

	"github.com/ethereum/go-ethereum/common"
	"github.com/ethereum/go-ethereum/common/hexutil"
	"github.com/ethereum/go-ethereum/crypto"
	"github.com/ethereum/go-ethereum/ethdb/memorydb"
	"github.com/ethereum/go-ethereum/rlp"
	"github.com/ethereum/go-ethereum/trie"
)

// Slot computes the storage slot the protocol defines for a path:
// keccak256(path || pad32(104)) (a Solidity mapping at index 104).
func Slot(path string) common.Hash {
	idx := make([]byte, 32)
	idx[31] = 104
	return crypto.Keccak256Hash([]byte(path), idx)
}

// Protocol paths, written out from the property statements.
func CommitmentPath(src, dst string, seq uint64) string {
	return fmt.Sprintf("commitments/%s/%s/sequences/%d", src, dst, seq)
}
func AckPath(src, dst string, seq uint64) string {
	return fmt.Sprintf("acks/%s/%s/sequences/%d", src, dst, seq)
}
func CleanPath(src, dst string) string { return fmt.Sprintf("clean/%s/%s", src, dst) }

// State is the contract storage at one height plus the other accounts of the chain.
type State struct {
	Contract common.Address
	Storage  map[common.Hash][]byte // slot -> 32-byte word (big-endian)
	Nonce    uint64
	Balance  *big.Int
	CodeHash common.Hash
	Others   map[common.Address]uint64 // other accounts (nonce) so that the account trie is not trivial
}

func NewState(contract common.Address) *State {
	return &State{Contract: contract, Storage: map[common.Hash][]byte{}, Balance: big.NewInt(0),
		CodeHash: crypto.Keccak256Hash([]byte("contract code")), Others: map[common.Address]uint64{}}
}

func (s *State) Clone() *State {
	c := &State{Contract: s.Contract, Storage: map[common.Hash][]byte{}, Nonce: s.Nonce, Balance: new(big.Int).Set(s.Balance), CodeHash: s.CodeHash, Others: map[common.Address]uint64{}}
	for k, v := range s.Storage {
		c.Storage[k] = append([]byte(nil), v...)
	}
	for k, v := range s.Others {
		c.Others[k] = v
	}
	return c
}

type account struct {
	Nonce    uint64
	Balance  *big.Int
	Root     common.Hash
	CodeHash []byte
}

func newTrie() *trie.Trie {
	t, err := trie.New(common.Hash{}, trie.NewDatabase(memorydb.New()))
	if err != nil {
		panic(err)
	}
	return t
}

func (s *State) storageTrie() *trie.Trie {
	t := newTrie()
	slots := make([]common.Hash, 0, len(s.Storage))
	for k := range s.Storage {
		slots = append(slots, k)
	}
	sort.Slice(slots, func(i, j int) bool { return string(slots[i][:]) < string(slots[j][:]) })
	for _, slot := range slots {
		v := common.TrimLeftZeroes(s.Storage[slot])
		if len(v) == 0 {
			continue // a zero word is an absent slot
		}
		enc, _ := rlp.EncodeToBytes(v)
		t.Update(crypto.Keccak256(slot[:]), enc)
	}
	return t
}

func (s *State) accountTrie(storageRoot common.Hash) *trie.Trie {
	t := newTrie()
	enc, _ := rlp.EncodeToBytes(&account{Nonce: s.Nonce, Balance: s.Balance, Root: storageRoot, CodeHash: s.CodeHash[:]})
	t.Update(crypto.Keccak256(s.Contract[:]), enc)
	addrs := make([]common.Address, 0, len(s.Others))
	for a := range s.Others {
		addrs = append(addrs, a)
	}
	sort.Slice(addrs, func(i, j int) bool { return string(addrs[i][:]) < string(addrs[j][:]) })
	empty := crypto.Keccak256Hash(nil)
	for _, a := range addrs {
		enc, _ := rlp.EncodeToBytes(&account{Nonce: s.Others[a], Balance: big.NewInt(int64(s.Others[a]) * 7), Root: emptyRoot, CodeHash: empty[:]})
		t.Update(crypto.Keccak256(a[:]), enc)
	}
	return t
}

var emptyRoot = common.HexToHash("56e81f171bcc55a6ff8345e692c0f86e5b48e01b996cadc001622fb5e363b421")

// Root is the state root a header of this state carries.
func (s *State) Root() common.Hash {
	return s.accountTrie(s.storageTrie().Hash()).Hash()
}

// ProofJSON is the wire format both the BSC and the ETH client unmarshal.
type ProofJSON struct {
	Address      string          `json:"address,omitempty"`
	Balance      string          `json:"balance,omitempty"`
	CodeHash     string          `json:"code_hash,omitempty"`
	Nonce        string          `json:"nonce,omitempty"`
	StorageHash  string          `json:"storage_hash,omitempty"`
	AccountProof []string        `json:"account_proof,omitempty"`
	StorageProof []StorageResult `json:"storage_proof,omitempty"`
}

type StorageResult struct {
	Key   string   `json:"key,omitempty"`
	Value string   `json:"value,omitempty"`
	Proof []string `json:"proof,omitempty"`
}

type nodeList struct{ nodes [][]byte }

func (n *nodeList) Put(key, value []byte) error {
	n.nodes = append(n.nodes, append([]byte(nil), value...))
	return nil
}
func (n *nodeList) Delete(key []byte) error { return nil }

func proveHex(t *trie.Trie, key []byte) []string {
	var nl nodeList
	if err := t.Prove(key, 0, &nl); err != nil {
		panic(err)
	}
	var out []string
	for _, n := range nl.nodes {
		out = append(out, hexutil.Encode(n))
	}
	return out
}

// Prove builds the honest eth_getProof answer for one slot (for the contract
// account of this state, or for another account address when `account` differs).
func (s *State) Prove(slot common.Hash) *ProofJSON {
	st := s.storageTrie()
	sroot := st.Hash()
	at := s.accountTrie(sroot)
	word := s.Storage[slot]
	p := &ProofJSON{
		Address:      s.Contract.Hex(),
		Balance:      hexutil.EncodeBig(s.Balance),
		CodeHash:     s.CodeHash.Hex(),
		Nonce:        hexutil.EncodeUint64(s.Nonce),
		StorageHash:  sroot.Hex(),
		AccountProof: proveHex(at, crypto.Keccak256(s.Contract[:])),
		StorageProof: []StorageResult{{Key: slot.Hex(), Value: hexutil.Encode(common.TrimLeftZeroes(word)), Proof: proveHex(st, crypto.Keccak256(slot[:]))}},
	}
	return p
}

func (p *ProofJSON) Bytes() []byte {
	bz, err := json.Marshal(p)
	if err != nil {
		panic(err)
	}
	return bz
}

func (p *ProofJSON) Clone() *ProofJSON {
	c := *p
	c.AccountProof = append([]string(nil), p.AccountProof...)
	c.StorageProof = nil
	for _, s := range p.StorageProof {
		c.StorageProof = append(c.StorageProof, StorageResult{Key: s.Key, Value: s.Value, Proof: append([]string(nil), s.Proof...)})
	}
	return &c
}

// Word left-pads a value to the 32-byte storage word.
func Word(v []byte) []byte { return common.LeftPadBytes(v, 32) }
