package props

import (
	"fmt"
	"strings"

	packettypes "github.com/bianjieai/tibc-go/modules/tibc/core/04-packet/types"
	host "github.com/bianjieai/tibc-go/modules/tibc/core/24-host"

	"tibcsim/core"
	"tibcsim/model"
	"tibcsim/scen"
	"tibcsim/world"
)

// C10: cleanup never discards live state and the clean point only moves forward.

var c10Muts = []string{scen.MutSeq, scen.MutSeq, scen.MutProofKey, scen.MutProver, scen.MutProofHeight, scen.MutSrc, scen.MutDst, scen.MutTarget, scen.MutProofBytes}

func init() {
	register(&core.Profile{Name: "c10-cleans", Property: "C10", Weight: 3, Run: func(c *core.Ctx) { runC10(c, false, false) },
		Doc: "3 chains, several packets per channel in different stages (sent, delivered, acked out of order), direct and relayed; users request cleans with N around every boundary; relayers forward, reorder, duplicate and replay cleans; Byzantine MsgRecvCleanPacket"})
	register(&core.Profile{Name: "c10-long-channel", Property: "C10", Weight: 2, Run: func(c *core.Ctx) { runC10(c, false, true) },
		Doc: "same, but most sends go over one (source,destination) pair so that it carries 10-40 packets with acknowledgements far out of order (two-digit sequences, cleans across long ranges)"})
	register(&core.Profile{Name: "c10-cleans-crash", Property: "C10", Weight: 1, Fault: true, Run: func(c *core.Ctx) { runC10(c, true, false) },
		Doc: "same with crash/restart"})
}

// cleanTracker remembers, per chain and pair, the clean point observed by
// query after every block (monotonicity) and the source-side bookkeeping.
type cleanTracker struct {
	c    *core.Ctx
	e    *scen.Engine
	last map[string]uint64
}

func (t *cleanTracker) OnBlock(n *world.Node, rec *world.BlockRecord) {
	// every pair this chain has ever seen
	seen := map[model.Pair]bool{}
	cp := t.e.PM.On(n.Name)
	for _, k := range sortedPKeys(cp.Commits) {
		seen[model.Pair{Src: k.Src, Dst: k.Dst}] = true
	}
	for _, k := range sortedPKeys(cp.Receipts) {
		seen[model.Pair{Src: k.Src, Dst: k.Dst}] = true
	}
	for _, pr := range sortedPairs(cp.Clean) {
		seen[pr] = true
	}
	for _, pr := range sortedPairs(seen) {
		cur := n.CleanPoint(pr.Src, pr.Dst)
		key := n.Name + "|" + pr.Src + "|" + pr.Dst
		if cur < t.last[key] {
			t.c.Violate("C10/clean-point-decreased", "%s: clean point of %s->%s went from %d to %d at height %d", n.Name, pr.Src, pr.Dst, t.last[key], cur, rec.Height)
		}
		t.last[key] = cur
	}
}

// sourceCleanAdmissible is the model's verdict for MsgCleanPacket(N) on the source.
func sourceCleanAdmissible(e *scen.Engine, n *world.Node, pr model.Pair, N uint64, h int64) (ok bool, why string) {
	cp := e.PM.On(n.Name)
	prev := cp.CleanPointAt(pr, h)
	if N <= prev {
		return false, "not-above-clean-point"
	}
	var maxAcked uint64
	acked := map[uint64]bool{}
	for _, k := range sortedPKeys(cp.AckOK) {
		if k.Src == pr.Src && k.Dst == pr.Dst && cp.AckOK[k] > 0 {
			// only acknowledgements processed up to the state after block h count;
			// AckOK has no height, but commitments do: acked <=> commitment ended <= h
			for _, cm := range cp.Commits[k] {
				if cm.Until != 0 && cm.Until <= h {
					acked[k.Seq] = true
					if k.Seq > maxAcked {
						maxAcked = k.Seq
					}
				}
			}
		}
	}
	if N > maxAcked {
		return false, "above-highest-acked"
	}
	for s := prev + 1; s <= N; s++ {
		if !acked[s] {
			return false, "unacknowledged-packet-in-range"
		}
	}
	return true, ""
}

func runC10(c *core.Ctx, crashes, deep bool) {
	ch := c.Ch
	w, e := buildTraffic(c, 3, world.DefaultClientParams())
	e.DumpStores = []string{"tibc"}
	tr := &cleanTracker{c: c, e: e, last: map[string]uint64{}}
	w.Observers = append(w.Observers, tr)
	uni := scen.DefaultUniverse()
	uni.BadReceiverPct = 15
	uni.UnknownDestPct = 4
	e.SeedTokens(uni, 3)
	if deep {
		deepSetup(e)
	}
	cleansAccepted, cleanMsgs := 0, 0

	e.OnUserTx = func(a *scen.UserAct, n *world.Node, r *world.TxResult, before map[string]string) {
		if a.Kind != "clean" {
			return
		}
		msg := r.Req.Msgs[0].(*packettypes.MsgCleanPacket)
		pr := model.Pair{Src: n.Name, Dst: msg.CleanPacket.DestinationChain}
		N := msg.CleanPacket.Sequence
		ok, why := sourceCleanAdmissible(e, n, pr, N, r.Height-1)
		accepted := r.OK() && world.CountEvents(r.Events, packettypes.EventTypeSendCleanPacket) > 0
		if accepted && !ok {
			c.Violate("C10/source-clean-accepted/"+why, "%s accepted MsgCleanPacket %s->%s N=%d: %s", n.Name, pr.Src, pr.Dst, N, why)
		}
		foreign := msg.CleanPacket.SourceChain != "" && msg.CleanPacket.SourceChain != n.Name
		if accepted && foreign {
			w.Stats.Inc("probe-foreign-source-clean-accepted-as-own")
		}
		if !accepted && ok && !foreign {
			// completeness on the source: needs a client for the next hop and a well-formed request
			next := msg.CleanPacket.DestinationChain
			if msg.CleanPacket.RelayChain != "" {
				next = msg.CleanPacket.RelayChain
			}
			if _, has := n.ClientState(next); has && msg.CleanPacket.ValidateBasic() == nil {
				c.Violate("C10/source-clean-rejected-valid", "%s rejected a legitimate MsgCleanPacket %s->%s N=%d: code %d %s", n.Name, pr.Src, pr.Dst, N, r.Code, world.Short(r.Log, 120))
			}
		}
		if accepted {
			cleansAccepted++
			cleanEffect(c, n, pr, e.PM.On(n.Name).CleanPointAt(pr, r.Height-1), N, before, "source")
		} else {
			noTraceTibc(c, "C10", n, r, before, "MsgCleanPacket")
		}
	}
	e.OnRelayTx = func(s *scen.Sent, n *world.Node, r *world.TxResult, before map[string]string) {
		onceOracle(c, e, s, n, r) // refusal after clean (shared with C02)
		cp, h, isClean := scen.SentClean(s)
		if !isClean {
			// acknowledgements for cleaned sequences must be refused too
			if _, isAck := s.Msg.(*packettypes.MsgAcknowledgement); isAck && r.OK() && world.CountEvents(r.Events, packettypes.EventTypeAcknowledgePacket) > 0 {
				p, _, _, _ := scen.SentPacket(s)
				if old := e.PM.On(n.Name).CleanPointAt(model.Pair{Src: p.SourceChain, Dst: p.DestinationChain}, r.Height-1); old >= p.Sequence {
					c.Violate("C10/ack-after-clean@"+roleOf(p, n.Name), "%s processed an acknowledgement for %s although its clean point was %d", n.Name, model.KeyOf(p), old)
				}
			}
			return
		}
		cleanMsgs++
		if s.Mut != "" {
			w.Stats.Inc("byz-" + firstTok(s.Mut))
		}
		pr := model.Pair{Src: cp.SourceChain, Dst: cp.DestinationChain}
		accepted := r.OK() // model-first: a successful MsgRecvCleanPacket is an accepted clean, whatever it emitted
		if !accepted {
			noTraceTibc(c, "C10", n, r, before, "MsgRecvCleanPacket")
			return
		}
		cleansAccepted++
		prover := cp.SourceChain
		if cp.DestinationChain == n.Name && cp.RelayChain != "" {
			prover = cp.RelayChain
		}
		mut := firstTok(s.Mut)
		if mut == "" {
			mut = "genuine"
		}
		if got := e.PM.On(prover).CleanPointAt(pr, int64(h.RevisionHeight)-1); got != cp.Sequence {
			c.Violate("C10/recv-clean-accepted/unproven/"+mut, "%s accepted MsgRecvCleanPacket %s->%s N=%d (mutation %q, proof height %d) but %s had clean point %d there",
				n.Name, pr.Src, pr.Dst, cp.Sequence, s.Mut, h.RevisionHeight, prover, got)
		}
		cleanEffect(c, n, pr, e.PM.On(n.Name).CleanPointAt(pr, r.Height-1), cp.Sequence, before, "remote")
	}

	steps := (90 + ch.Int(110)) * c.Scale
	for i := 0; i < steps; i++ {
		c.Step("c10")
		switch ch.Pick([]int{22, 34, 14, 8, 12, 6, 4, 5}) {
		case 0:
			if deep && ch.Bool(3, 4) {
				deepBurst(c, e)
				continue
			}
			e.RandomUserOp(w.Nodes[ch.Int(len(w.Nodes))], uni)
		case 1:
			if it := pickPending(c, e); it != nil {
				e.Deliver(it, w.Relayers[ch.Int(2)])
			}
		case 2:
			userClean(c, e, w.Nodes[ch.Int(len(w.Nodes))])
		case 3: // Byzantine clean
			orig := byzSource(c, e, scen.KClean)
			if orig == nil {
				continue
			}
			m := e.Mutate(orig, c10Muts[ch.Int(len(c10Muts))])
			if m != nil {
				e.Submit(m)
			}
		case 4: // replay of old receives / acks / cleans
			old := genuineSent(e, scen.KRecv, scen.KAck, scen.KClean)
			if len(old) == 0 {
				continue
			}
			d := scen.CloneSent(old[ch.Int(len(old))])
			d.Mut = "replay"
			w.Stats.Inc("replay")
			e.Submit(d)
		case 5:
			n := w.Nodes[ch.Int(len(w.Nodes))]
			if !n.Down {
				_, err := w.Block(n, nil, world.NoCrash)
				c.Check(err)
			}
		case 6:
			if crashes {
				crashSome(c, w)
			}
		case 7:
			foreignClean(c, e, w.Nodes[ch.Int(len(w.Nodes))])
		}
	}
	c.Nontrivial = cleansAccepted >= 1 && cleanMsgs >= 1
	if cleansAccepted > 0 {
		w.Stats.Add("cleans-accepted", cleansAccepted)
	}
}

// cleanEffect: an accepted clean may change only the clean point and the
// receipts / acknowledgements of that pair with sequence in (old, N].
// deepSetup gives the first user of the first chain a large multi-token balance to send
// from in many small transfers (deepBurst).
func deepSetup(e *scen.Engine) {
	w := e.W
	A := w.Nodes[0]
	e.IssueMTDenom(A, w.Users[0], "deepclass")
	for _, d := range A.App.MtKeeper.GetDenoms(A.QueryCtx()) {
		if d.Owner == w.Users[0].Addr.String() {
			e.MintMT(A, w.Users[0], d.Id, "", 100000, w.Users[0])
			break
		}
	}
}

// deepBurst makes one long channel: many small transfers on the same (source, destination)
// pair, so that sequences reach two digits and acknowledgements arrive far out of order.
func deepBurst(c *core.Ctx, e *scen.Engine) {
	ch := c.Ch
	w := e.W
	A := w.Nodes[0]
	holder := w.Users[0]
	for _, b := range func() []world.MTBalance { bs, _ := A.MTSnapshot(); return bs }() {
		if b.Owner == holder.Addr.String() && b.Amount > 0 {
			relay := ""
			if len(w.Nodes) > 2 && ch.Bool(1, 5) {
				relay = w.Nodes[2].Name
			}
			for k := 0; k < 1+ch.Int(4); k++ {
				e.MtTransfer(A, holder, b.Class, b.ID, 1, w.Users[1].Addr.String(), w.Nodes[1].Name, relay)
			}
			w.Stats.Inc("deep-channel-burst")
			break
		}
	}
}

// foreignClean submits, on a chain that is NOT the source of a channel it knows (it is its
// destination or relay), a MsgCleanPacket naming that channel's real source.  A user message
// carries no proof, so the chain may refuse it or treat it as a request about its own
// outgoing channel; it must not touch the foreign channel's state.
func foreignClean(c *core.Ctx, e *scen.Engine, n *world.Node) *world.TxResult {
	ch := c.Ch
	cp := e.PM.On(n.Name)
	seen := map[model.Pair]uint64{}
	for _, k := range sortedPKeys(cp.Receipts) {
		if k.Src != n.Name {
			pr := model.Pair{Src: k.Src, Dst: k.Dst}
			if k.Seq > seen[pr] {
				seen[pr] = k.Seq
			}
		}
	}
	for _, k := range sortedPKeys(cp.Acks) {
		if k.Src != n.Name {
			pr := model.Pair{Src: k.Src, Dst: k.Dst}
			if k.Seq > seen[pr] {
				seen[pr] = k.Seq
			}
		}
	}
	pairs := sortedPairs(seen)
	if len(pairs) == 0 {
		return nil
	}
	pr := pairs[ch.Int(len(pairs))]
	top := seen[pr]
	cur := n.CleanPoint(pr.Src, pr.Dst)
	cands := []uint64{1, top, cur + 1, n.MaxAckSeq(pr.Src, pr.Dst), 1 + uint64(ch.Int(int(top)))}
	N := cands[ch.Int(len(cands))]
	if N == 0 {
		N = 1
	}
	relay := ""
	if ch.Bool(2, 3) { // any chain the executing chain has a client for
		var known []string
		for _, o := range e.W.Nodes {
			if o != n {
				known = append(known, o.Name)
			}
		}
		relay = known[ch.Int(len(known))]
		if relay == pr.Dst {
			relay = ""
		}
	}
	e.W.Stats.Inc("foreign-source-clean-request")
	return e.CleanPacketFrom(n, e.W.Users[ch.Int(len(e.W.Users))], pr.Src, pr.Dst, relay, N)
}

func cleanEffect(c *core.Ctx, n *world.Node, pr model.Pair, old, N uint64, before map[string]string, where string) {
	if before == nil {
		return
	}
	after := n.DumpMap("tibc")
	allowed := map[string]bool{"tibc|" + string(host.CleanPacketCommitmentKey(pr.Src, pr.Dst)): true}
	lo := old
	if lo > N {
		lo = N
	}
	for s := lo + 1; s <= N; s++ {
		allowed["tibc|"+string(host.PacketReceiptKey(pr.Src, pr.Dst, s))] = true
		allowed["tibc|"+string(host.PacketAcknowledgementKey(pr.Src, pr.Dst, s))] = true
	}
	for _, k := range world.DiffDumps(before, after) {
		if allowed[k] {
			continue
		}
		class := "other"
		switch {
		case strings.Contains(k, "commitments/"):
			class = "commitment"
		case strings.Contains(k, "receipts/"):
			class = "receipt-outside-range"
		case strings.Contains(k, "acks/"):
			class = "ack-outside-range"
		case strings.Contains(k, "nextSequenceSend"):
			class = "send-sequence"
		}
		c.Violate("C10/clean-effect/"+class+"@"+where, "%s: clean of %s->%s from %d to %d also changed %s", n.Name, pr.Src, pr.Dst, old, N, world.Short(k, 100))
	}
	if got := n.CleanPoint(pr.Src, pr.Dst); got != N {
		c.Violate("C10/clean-effect/clean-point-not-set@"+where, "%s: after accepting clean N=%d for %s->%s the clean point is %d", n.Name, N, pr.Src, pr.Dst, got)
	}
	// receipts and acks up to N must be gone
	for s := lo + 1; s <= N; s++ {
		if n.HasReceipt(pr.Src, pr.Dst, s) {
			c.Violate("C10/clean-effect/receipt-left@"+where, "%s: receipt %s->%s#%d survived clean to %d", n.Name, pr.Src, pr.Dst, s, N)
		}
		if _, ok := n.AckHash(pr.Src, pr.Dst, s); ok {
			c.Violate("C10/clean-effect/ack-left@"+where, "%s: acknowledgement %s->%s#%d survived clean to %d", n.Name, pr.Src, pr.Dst, s, N)
		}
	}
}

func noTraceTibc(c *core.Ctx, prop string, n *world.Node, r *world.TxResult, before map[string]string, what string) {
	if r.OK() || before == nil {
		return
	}
	after := n.DumpMap("tibc")
	if d := world.DiffDumps(before, after); len(d) > 0 {
		c.Violate(prop+"/rejected-but-state-changed", "%s on %s failed (code %d) but changed: %s", what, n.Name, r.Code, diffSummary(d, 4))
	}
}

var _ = fmt.Sprint
