package props

import (
	"strconv"

	mttypes "mods.irisnet.org/modules/mt/types"

	mttransfer "github.com/bianjieai/tibc-go/modules/tibc/apps/mt_transfer/types"
	packettypes "github.com/bianjieai/tibc-go/modules/tibc/core/04-packet/types"

	"tibcsim/core"
	"tibcsim/model"
	"tibcsim/scen"
	"tibcsim/world"
)

// C05: multi-token transfers conserve supply across chains.

var mtAmounts = []uint64{1, 2, 7, 1000, 1 << 32, 1<<63 - 1, 1 << 63, 1<<64 - 2, 1<<64 - 1}

func init() {
	register(&core.Profile{Name: "c05-mt-conservation", Property: "C05", Weight: 3, Run: func(c *core.Ctx) { runC05(c, false) },
		Doc: "2-4 chains; native issue/mint of supplies up to 2^64-1, partial transfers away and back by several holders, several ids per class, amounts from the boundary set, zero-amount and bad-receiver sends (error acks), holder burns; honest relayer with duplication; escrow and supply equations (math/big) after every tx"})
	register(&core.Profile{Name: "c05-lookalike-chains", Property: "C05", Weight: 1, Run: withLookalikeChains(func(c *core.Ctx) { runC05(c, false) }),
		Doc: "c05-mt-conservation in a world whose chain names are suffixes / prefixes of one another (irishub-mainnet, hub-mainnet, sub-irishub-mainnet, hub-mainnet.x)"})
	register(&core.Profile{Name: "c05-mt-conservation-crash", Property: "C05", Weight: 1, Fault: true, Run: func(c *core.Ctx) { runC05(c, true) },
		Doc: "same with crash/restart between steps"})
}

func mtHooks(c *core.Ctx, e *scen.Engine, m *model.MtModel) {
	flush := func() {
		m.CheckEquations()
		for _, p := range m.Problems {
			c.Violate(p.Sig, "%s", p.Detail)
		}
		m.Problems = nil
	}
	e.OnUserTx = func(a *scen.UserAct, n *world.Node, r *world.TxResult, _ map[string]string) {
		d := m.Observe(n)
		if !r.OK() {
			m.NoChange(n.Name, "failed "+a.Kind, d)
			flush()
			return
		}
		switch a.Kind {
		case "mt-mint":
			msg := r.Req.Msgs[0].(*mttypes.MsgMintMT)
			id := msg.Id
			if id == "" { // a new MT: its id is in the mint event
				for _, ev := range r.Events {
					if ev.Type == mttypes.EventTypeMintMT {
						for _, at := range ev.Attributes {
							if at.Key == mttypes.AttributeKeyMTID {
								id = at.Value
							}
						}
					}
				}
			}
			m.Mint(model.MtNode{Chain: n.Name, Class: msg.DenomId, ID: id}, msg.Amount)
		case "mt-burn":
			msg := r.Req.Msgs[0].(*mttypes.MsgBurnMT)
			m.UserBurn(model.MtNode{Chain: n.Name, Class: msg.DenomId, ID: msg.Id}, msg.Amount)
		case "mt-send", "mt-issue":
		case "mt-xfer":
			msg := r.Req.Msgs[0].(*mttransfer.MsgMtTransfer)
			var pk model.PKey
			for _, ev := range world.ParsePacketEvents(r.Events) {
				if ev.Type == packettypes.EventTypeSendPacket {
					pk = model.KeyOf(ev.Packet)
				}
			}
			m.Send(pk, model.MtNode{Chain: n.Name, Class: msg.Class, ID: msg.Id}, msg.Amount, msg.DestChain, msg.Sender, d)
		default:
			m.NoChange(n.Name, a.Kind, d)
		}
		flush()
	}
	e.OnRelayTx = func(s *scen.Sent, n *world.Node, r *world.TxResult, _ map[string]string) {
		d := m.Observe(n)
		handled := false
		if r.OK() && s.Item != nil {
			p, ack, _, ok := scen.SentPacket(s)
			if ok && p.Port == "MT" {
				var data mttransfer.MultiTokenPacketData
				_ = data.Unmarshal(p.Data)
				switch s.Item.Kind {
				case scen.KRecv:
					if p.DestinationChain == n.Name {
						for _, ev := range world.ParsePacketEvents(r.Events) {
							if ev.Type == packettypes.EventTypeWriteAck {
								if succ, ok := IsSuccessAck(ev.Ack); ok && succ {
									m.Recv(model.KeyOf(p), n.Name, data.Receiver, d)
									handled = true
								}
							}
						}
					}
				case scen.KAck:
					if p.SourceChain == n.Name && world.CountEvents(r.Events, packettypes.EventTypeAcknowledgePacket) > 0 {
						if succ, ok := IsSuccessAck(ack); ok && !succ {
							m.Refund(model.KeyOf(p), n.Name, d)
							handled = true
						}
					}
				}
			}
		}
		if !handled {
			m.NoChange(n.Name, "relayer tx", d)
		}
		flush()
	}
}

func runC05(c *core.Ctx, crashes bool) {
	ch := c.Ch
	nChains := ch.Range(2, 4)
	w, e := buildTokenWorld(c, nChains)
	m := model.NewMtModel(world.ModuleAddr("MT"))
	for _, n := range w.Nodes {
		m.Observe(n)
	}
	mtHooks(c, e, m)
	users := map[string]*world.Account{}
	for _, u := range w.Users {
		users[u.Addr.String()] = u
	}
	xfers := 0
	// seeding: a class per chain, two MTs, big supplies
	for _, n := range w.Nodes {
		c.Step("c05-seed")
		owner := w.Users[ch.Int(len(w.Users))]
		e.IssueMTDenom(n, owner, "mtclass")
		for _, d := range n.App.MtKeeper.GetDenoms(n.QueryCtx()) {
			if d.Owner == owner.Addr.String() {
				e.MintMT(n, owner, d.Id, "", mtAmounts[ch.Int(len(mtAmounts))], w.Users[ch.Int(len(w.Users))])
				e.MintMT(n, owner, d.Id, "", mtAmounts[ch.Int(len(mtAmounts))], w.Users[ch.Int(len(w.Users))])
			}
		}
	}
	steps := (60 + ch.Int(90)) * c.Scale
	for i := 0; i < steps; i++ {
		c.Step("c05")
		n := w.Nodes[ch.Int(len(w.Nodes))]
		if n.Down {
			c.Check(n.Restart())
		}
		user := w.Users[ch.Int(len(w.Users))]
		bals, _ := n.MTSnapshot()
		var owned []world.MTBalance
		for _, b := range bals {
			if b.Amount > 0 && users[b.Owner] != nil {
				owned = append(owned, b)
			}
		}
		pickAmt := func(have uint64) uint64 {
			switch ch.Int(6) {
			case 0:
				return have
			case 1:
				return have - have/2
			case 2:
				return 1
			case 3:
				if have > 1 {
					return have - 1
				}
				return have
			default:
				a := mtAmounts[ch.Int(len(mtAmounts))]
				if a > have {
					return have
				}
				return a
			}
		}
		switch ch.Pick([]int{2, 8, 5, 3, 28, 46, 8}) {
		case 0:
			e.IssueMTDenom(n, user, "mtc"+strconv.Itoa(i))
		case 1: // mint more of an existing MT or a new one (only the class owner may)
			var mine []string
			for _, d := range n.App.MtKeeper.GetDenoms(n.QueryCtx()) {
				if users[d.Owner] != nil {
					mine = append(mine, d.Owner+"|"+d.Id)
				}
			}
			if len(mine) == 0 {
				continue
			}
			x := mine[ch.Int(len(mine))]
			owner, class := users[x[:len(x)-65]], x[len(x)-64:]
			id := ""
			if mts := n.App.MtKeeper.GetMTs(n.QueryCtx(), class); len(mts) > 0 && ch.Bool(3, 4) {
				id = mts[ch.Int(len(mts))].GetID()
			}
			e.MintMT(n, owner, class, id, mtAmounts[ch.Int(len(mtAmounts))], w.Users[ch.Int(len(w.Users))])
		case 2:
			if len(owned) > 0 {
				b := owned[ch.Int(len(owned))]
				e.TransferMT(n, users[b.Owner], b.Class, b.ID, pickAmt(b.Amount), w.Users[ch.Int(len(w.Users))])
			}
		case 3:
			if len(owned) > 0 {
				b := owned[ch.Int(len(owned))]
				e.BurnMT(n, users[b.Owner], b.Class, b.ID, pickAmt(b.Amount))
			}
		case 4:
			if len(owned) == 0 {
				continue
			}
			b := owned[ch.Int(len(owned))]
			var others []*world.Node
			for _, o := range w.Nodes {
				if o != n {
					others = append(others, o)
				}
			}
			d := others[ch.Int(len(others))]
			relay := ""
			if len(others) > 1 && ch.Bool(1, 3) {
				for _, o := range others {
					if o != d {
						relay = o.Name
					}
				}
			}
			recv := w.Users[ch.Int(len(w.Users))].Addr.String()
			if ch.Int(100) < 12 {
				recv = "not-an-address"
			}
			amt := pickAmt(b.Amount)
			if ch.Int(100) < 6 {
				amt = 0
				w.Stats.Inc("zero-amount-send")
			}
			dest := d.Name
			switch ch.Int(25) { // a next hop the sending chain has no client of: the send must fail as a whole
			case 1:
				dest = "chain-zzz9"
				w.Stats.Inc("send-to-unknown-destination")
			case 2:
				relay = "chain-yyy9"
				w.Stats.Inc("send-via-unknown-relay")
			}
			if r := e.MtTransfer(n, users[b.Owner], b.Class, b.ID, amt, recv, dest, relay); r.OK() {
				xfers++
				if amt >= 1<<63 {
					w.Stats.Inc("probe-amount>=2^63")
				}
			}
		case 5:
			if it := pickPending(c, e); it != nil {
				if it.Kind == scen.KClean {
					it.Done = true
					continue
				}
				s := e.Deliver(it, w.Relayers[ch.Int(2)])
				if s != nil && ch.Bool(1, 5) {
					dd := scen.CloneSent(s)
					dd.Mut = "dup"
					e.Submit(dd)
					w.Stats.Inc("dup")
				}
			}
		case 6:
			if crashes {
				crashSome(c, w)
			}
		}
	}
	e.Drain(120)
	m.CheckEquations()
	for _, p := range m.Problems {
		c.Violate(p.Sig, "%s", p.Detail)
	}
	w.Stats.Add("mt-xfers", xfers)
	c.Nontrivial = xfers >= 3
}
