package props

import (
	"bytes"
	"fmt"

	sdk "github.com/cosmos/cosmos-sdk/types"
	ics23 "github.com/cosmos/ics23/go"
	mttypes "mods.irisnet.org/modules/mt/types"
	nfttypes "mods.irisnet.org/modules/nft/types"

	abci "github.com/cometbft/cometbft/abci/types"
	mttransfer "github.com/bianjieai/tibc-go/modules/tibc/apps/mt_transfer/types"
	nfttransfer "github.com/bianjieai/tibc-go/modules/tibc/apps/nft_transfer/types"
	packettypes "github.com/bianjieai/tibc-go/modules/tibc/core/04-packet/types"
	host "github.com/bianjieai/tibc-go/modules/tibc/core/24-host"

	"context"

	"tibcsim/core"
	"tibcsim/model"
	"tibcsim/scen"
	"tibcsim/world"
)

// C09: sends get gap-free sequences and one binding commitment, all-or-nothing.
//
// History oracle, evaluated after every committed block of every chain:
//   * per (src,dst) the send_packet events originated on the chain carry the
//     sequences 1,2,3,... in commit order, and NextSequenceSend == count+1;
//   * for every such event the stored commitment is sha256(event data), and it
//     is provable: the ABCI proof verifies with ics23 against the app hash the
//     next header carries;
//   * a failing tx announces no packet, and in a single-tx block leaves the
//     tibc and token stores untouched;
//   * the number of tokens that left user hands in a block matches the packets
//     announced (no lock/burn without a packet, no packet without lock/burn).

func init() {
	register(&core.Profile{Name: "c09-sends", Property: "C09", Weight: 3, Run: func(c *core.Ctx) { runC09(c, false) },
		Doc: "2-3 chains; blocks with several txs and several msgs per tx mixing valid NFT/MT transfers with failing ones (unknown destination or relay chain, token not owned, class missing, destination == source, stale account sequence, amount above balance); inbound traffic interleaved"})
	register(&core.Profile{Name: "c09-sends-crash", Property: "C09", Weight: 1, Fault: true, Run: func(c *core.Ctx) { runC09(c, true) },
		Doc: "same with crashes between FinalizeBlock and Commit (the lost block's sends must vanish and the re-proposed block reuse the sequences) and after Commit"})
}

type c09Oracle struct {
	c    *core.Ctx
	e    *scen.Engine
	seen map[string]int // events checked so far per chain|pair
}

func (o *c09Oracle) OnBlock(n *world.Node, rec *world.BlockRecord) {
	c := o.c
	cp := o.e.PM.On(n.Name)
	for _, pr := range sortedPairs(cp.SendSeq) {
		seqs := cp.SendSeq[pr]
		for i, s := range seqs {
			if s != uint64(i+1) {
				c.Violate("C09/sequence-gap-or-reuse", "%s: send_packet events for %s->%s carry sequences %v (position %d should be %d)", n.Name, pr.Src, pr.Dst, seqs, i, i+1)
			}
		}
		if got := n.NextSeqSend(pr.Src, pr.Dst); got != uint64(len(seqs)+1) {
			c.Violate("C09/next-sequence-mismatch", "%s: %d packets announced for %s->%s but NextSequenceSend is %d", n.Name, len(seqs), pr.Src, pr.Dst, got)
		}
	}
	for _, pr := range o.e.PM.Problems {
		c.Violate("C09/commitment-overwritten", "%s", pr)
	}
	o.e.PM.Problems = nil
	for _, r := range rec.Results {
		evs := world.ParsePacketEvents(r.Events)
		if !r.OK() {
			for _, ev := range evs {
				if ev.Type == packettypes.EventTypeSendPacket {
					c.Violate("C09/failed-tx-announced-packet", "%s: failed tx %s carries a send_packet event for %s", n.Name, r.Hash, model.KeyOf(ev.Packet))
				}
			}
			continue
		}
		for _, ev := range evs {
			if ev.Type != packettypes.EventTypeSendPacket || ev.Packet.SourceChain != n.Name {
				continue
			}
			k := model.KeyOf(ev.Packet)
			want := sha(ev.Packet.Data)
			if got := n.Commitment(k.Src, k.Dst, k.Seq); !bytes.Equal(got, want[:]) {
				c.Violate("C09/commitment-not-binding", "%s: commitment stored for %s is %x, sha256 of the announced data is %x", n.Name, k, got, want[:])
			}
			if err := verifyProvable(n, host.PacketCommitmentKey(k.Src, k.Dst, k.Seq), want[:], rec.Height); err != nil {
				c.Violate("C09/commitment-not-provable", "%s: commitment of %s at height %d: %v", n.Name, k, rec.Height, err)
			}
			n.App = n.App // keep
			o.c.W.Stats.Inc("probe-commitment-proof-verified")
		}
	}
}

// verifyProvable checks with ics23 only (no tibc code) that key=value is proven
// by the ABCI query proof against the app hash after block h.
func verifyProvable(n *world.Node, key, value []byte, h int64) error {
	res, err := n.App.Query(context.Background(), &abci.RequestQuery{Path: "store/" + host.StoreKey + "/key", Height: h, Data: key, Prove: true})
	if err != nil {
		return err
	}
	if res.ProofOps == nil || len(res.ProofOps.Ops) != 2 {
		return fmt.Errorf("unexpected proof shape")
	}
	var iavlProof, storeProof ics23.CommitmentProof
	if err := iavlProof.Unmarshal(res.ProofOps.Ops[0].Data); err != nil {
		return err
	}
	if err := storeProof.Unmarshal(res.ProofOps.Ops[1].Data); err != nil {
		return err
	}
	sub, err := iavlProof.Calculate()
	if err != nil {
		return err
	}
	if !ics23.VerifyMembership(ics23.IavlSpec, sub, &iavlProof, key, value) {
		return fmt.Errorf("iavl membership proof does not verify")
	}
	root := n.AppHashAt(h)
	if !ics23.VerifyMembership(ics23.TendermintSpec, root, &storeProof, []byte(host.StoreKey), sub) {
		return fmt.Errorf("store proof does not verify against app hash %x", root)
	}
	return nil
}

// holdings counts NFTs and MT units in user hands on a chain.
func userHoldings(e *scen.Engine, n *world.Node) (nfts int, mts map[string]uint64) {
	mts = map[string]uint64{}
	users := map[string]bool{}
	for _, u := range e.W.Users {
		users[u.Addr.String()] = true
	}
	ns, _ := n.NFTSnapshot()
	for _, t := range ns {
		if users[t.Owner] {
			nfts++
		}
	}
	bs, _ := n.MTSnapshot()
	for _, b := range bs {
		if users[b.Owner] {
			mts[b.Class+"/"+b.ID] += b.Amount
		}
	}
	return
}

func runC09(c *core.Ctx, crashes bool) {
	ch := c.Ch
	nChains := ch.Range(2, 3)
	w, e := buildTraffic(c, nChains, world.DefaultClientParams())
	uni := scen.DefaultUniverse()
	e.SeedTokens(uni, 3)
	// more tokens so that many sends are possible
	for _, n := range w.Nodes {
		for k := 0; k < 4; k++ {
			e.RandomUserOp(n, uni)
		}
	}
	w.Observers = append(w.Observers, &c09Oracle{c: c, e: e, seen: map[string]int{}})
	sends, failing := 0, 0

	blocks := (25 + ch.Int(35)) * c.Scale
	for bi := 0; bi < blocks; bi++ {
		c.Step("c09-block")
		n := w.Nodes[ch.Int(len(w.Nodes))]
		if n.Down {
			c.Check(n.Restart())
		}
		if ch.Bool(1, 4) { // inbound traffic interleaved
			if it := pickPending(c, e); it != nil {
				e.Deliver(it, w.Relayers[ch.Int(2)])
			}
			continue
		}
		// build a block of 1-4 txs, each with 1-3 msgs, each msg a send that is valid or failing
		nfts, _ := n.NFTSnapshot()
		bals, _ := n.MTSnapshot()
		usedNFT := map[string]bool{}
		var reqs []*world.TxReq
		expectOK := []bool{}
		ntx := 1 + ch.Int(4)
		usedSigner := map[string]bool{}
		for t := 0; t < ntx; t++ {
			user := w.Users[ch.Int(len(w.Users))]
			if ch.Bool(3, 4) { // prefer somebody who owns something
				var owners []*world.Account
				for _, u := range w.Users {
					has := false
					for _, x := range nfts {
						has = has || x.Owner == u.Addr.String()
					}
					for _, b := range bals {
						has = has || (b.Owner == u.Addr.String() && b.Amount > 0)
					}
					if has && !usedSigner[u.Addr.String()] {
						owners = append(owners, u)
					}
				}
				if len(owners) > 0 {
					user = owners[ch.Int(len(owners))]
				}
			}
			if usedSigner[user.Addr.String()] {
				continue // one tx per signer per block keeps account sequences simple
			}
			usedSigner[user.Addr.String()] = true
			var msgs []sdk.Msg
			allValid := true
			nm := 1 + ch.Int(2)
			label := ""
			for m := 0; m < nm; m++ {
				dest, relay := c09Route(c, e, n)
				bad := ch.Int(100) < 18
				kind := ch.Int(2)
				{ // prefer a kind the user can actually send
					hasN, hasM := false, false
					for _, x := range nfts {
						hasN = hasN || (x.Owner == user.Addr.String() && !usedNFT[x.Class+"/"+x.ID])
					}
					for _, b := range bals {
						hasM = hasM || (b.Owner == user.Addr.String() && b.Amount > 0 && !usedNFT["mt/"+b.Class+"/"+b.ID])
					}
					if hasN && !hasM {
						kind = 0
					} else if hasM && !hasN {
						kind = 1
					}
				}
				if kind == 0 {
					// NFT owned by this user and not yet used in this block
					var mine []world.NFTInfo
					var others []world.NFTInfo
					for _, x := range nfts {
						if usedNFT[x.Class+"/"+x.ID] {
							continue
						}
						if x.Owner == user.Addr.String() {
							mine = append(mine, x)
						} else {
							others = append(others, x)
						}
					}
					class, id := "kitty", "zzz"
					switch {
					case bad:
						allValid = false
						switch ch.Int(5) {
						case 0:
							dest = "chain-zzz9" // unknown destination (no client)
							if len(mine) > 0 {
								class, id = mine[0].Class, mine[0].ID
							}
							label += "unknown-dest "
						case 1:
							relay = "chain-yyy9" // unknown relay chain
							if len(mine) > 0 {
								class, id = mine[0].Class, mine[0].ID
							}
							label += "unknown-relay "
						case 2:
							if len(others) > 0 {
								class, id = others[0].Class, others[0].ID
							}
							label += "not-owned "
						case 3:
							class = "nosuchclass"
							label += "class-missing "
						default:
							dest = n.Name
							if len(mine) > 0 {
								class, id = mine[0].Class, mine[0].ID
							}
							label += "dest-eq-source "
						}
					case len(mine) > 0:
						x := mine[ch.Int(len(mine))]
						class, id = x.Class, x.ID
						usedNFT[class+"/"+id] = true
						label += "nft "
					default:
						allValid = false
						label += "nothing-owned "
					}
					msgs = append(msgs, nfttransfer.NewMsgNftTransfer(class, id, user.Addr.String(), w.Users[ch.Int(len(w.Users))].Addr.String(), dest, relay, ""))
				} else {
					var mine []world.MTBalance
					for _, b := range bals {
						if b.Owner == user.Addr.String() && b.Amount > 0 && !usedNFT["mt/"+b.Class+"/"+b.ID] {
							mine = append(mine, b)
						}
					}
					if len(mine) == 0 {
						allValid = false
						msgs = append(msgs, mttransfer.NewMsgMtTransfer("00", "00", user.Addr.String(), user.Addr.String(), dest, relay, "", 1))
						label += "mt-nothing "
						continue
					}
					b := mine[ch.Int(len(mine))]
					usedNFT["mt/"+b.Class+"/"+b.ID] = true
					amt := 1 + uint64(ch.Int(int(minU64(b.Amount, 50))))
					if bad {
						allValid = false
						switch ch.Int(3) {
						case 0:
							amt = b.Amount + 1
							label += "mt-over-balance "
						case 1:
							dest = "chain-zzz9"
							label += "mt-unknown-dest "
						default:
							relay = "chain-yyy9"
							label += "mt-unknown-relay "
						}
					} else {
						label += "mt "
					}
					msgs = append(msgs, mttransfer.NewMsgMtTransfer(b.Class, b.ID, user.Addr.String(), w.Users[ch.Int(len(w.Users))].Addr.String(), dest, relay, "", amt))
				}
			}
			req := &world.TxReq{Signer: user, Msgs: msgs, Label: "sends[" + label + "]"}
			if ch.Int(100) < 8 {
				req.SeqDelta = 1 + ch.Int(2) // stale / future account sequence
				allValid = false
				req.Label += "bad-account-seq"
			}
			reqs = append(reqs, req)
			expectOK = append(expectOK, allValid)
		}
		if len(reqs) == 0 {
			continue
		}
		crash := world.NoCrash
		if crashes && ch.Int(100) < 20 {
			crash = []world.CrashPoint{world.CrashAfterFinalize, world.CrashAfterFinalize, world.CrashAfterCommit, world.CrashBeforeFinalize}[ch.Int(4)]
			w.Stats.Inc(fmt.Sprintf("crash-%d", int(crash)))
		}
		beforeNFT, beforeMT := userHoldings(e, n)
		var before map[string]string
		if len(reqs) == 1 {
			before = n.DumpMap(TokenStores...)
		}
		hBefore := n.Height
		rec, err := w.Block(n, reqs, crash)
		c.Check(err)
		if n.Down {
			c.Check(n.Restart())
			if n.Height == hBefore {
				// lost block: nothing of it may be visible
				aN, aM := userHoldings(e, n)
				if aN != beforeNFT || fmt.Sprint(aM) != fmt.Sprint(beforeMT) {
					c.Violate("C09/lost-block-left-trace", "%s: block lost in a crash changed user holdings", n.Name)
				}
				w.Stats.Inc("probe-lost-block")
				continue
			}
		}
		if rec == nil || n.Height == hBefore {
			continue
		}
		announced := 0
		for i, r := range rec.Results {
			c.Op(fmt.Sprintf("send:%d", r.Code))
			nSend := 0
			for _, ev := range world.ParsePacketEvents(r.Events) {
				if ev.Type == packettypes.EventTypeSendPacket && ev.Packet.SourceChain == n.Name {
					nSend++
				}
			}
			if r.OK() {
				sends += nSend
				announced += nSend
				if nSend != len(reqs[i].Msgs) {
					c.Violate("C09/successful-send-without-packet", "%s: tx %s with %d transfer msgs succeeded but announced %d packets", n.Name, r.Hash, len(reqs[i].Msgs), nSend)
				}
			} else {
				failing++
				if expectOK[i] {
					c.Violate("C09/valid-send-rejected", "%s: tx %s (%s) built only from valid sends failed: code %d %s", n.Name, r.Hash, reqs[i].Label, r.Code, world.Short(r.Log, 160))
				}
			}
		}
		if len(reqs) == 1 && !rec.Results[0].OK() {
			noTraceOnFailure(c, "C09", n, rec.Results[0], before, "failing send tx")
		}
		// tokens that left user hands == packets announced (NFT count; MT units by packet data)
		aN, aM := userHoldings(e, n)
		leftNFT := beforeNFT - aN
		var wantNFT int
		wantMT := map[string]uint64{}
		for _, r := range rec.Results {
			if !r.OK() {
				continue
			}
			for _, ev := range world.ParsePacketEvents(r.Events) {
				if ev.Type != packettypes.EventTypeSendPacket || ev.Packet.SourceChain != n.Name {
					continue
				}
				if ev.Packet.Port == "NFT" {
					wantNFT++
				} else if ev.Packet.Port == "MT" {
					var d mttransfer.MultiTokenPacketData
					if err := d.Unmarshal(ev.Packet.Data); err == nil {
						wantMT[""] += d.Amount
					}
				}
			}
		}
		if leftNFT != wantNFT {
			c.Violate("C09/lock-without-packet-or-packet-without-lock/nft", "%s block %d: %d NFTs left user hands but %d NFT packets were announced", n.Name, rec.Height, leftNFT, wantNFT)
		}
		var leftMT uint64
		for k, v := range beforeMT {
			if v > aM[k] {
				leftMT += v - aM[k]
			}
		}
		for k, v := range aM {
			if v > beforeMT[k] {
				leftMT -= v - beforeMT[k]
			}
		}
		if leftMT != wantMT[""] {
			c.Violate("C09/lock-without-packet-or-packet-without-lock/mt", "%s block %d: %d MT units left user hands but packets announce %d", n.Name, rec.Height, leftMT, wantMT[""])
		}
	}
	// "no reuse" across a restart from the chain's own exported genesis: the re-imported chain
	// continues every pair's numbering where the exporting chain stopped
	c.Step("c09-genesis-restart")
	X := w.Nodes[ch.Int(len(w.Nodes))]
	if X.Down {
		c.Check(X.Restart())
	}
	sh, err := X.ExportAndReimport()
	c.Check(err)
	rec0, err := w.Block(X, nil, world.NoCrash)
	c.Check(err)
	_, err = sh.ApplyRecorded(rec0)
	c.Check(err)
	w.Stats.Inc("genesis-restart")
	cpX := e.PM.On(X.Name)
	for _, pr := range sortedPairs(cpX.SendSeq) {
		if pr.Src != X.Name {
			continue
		}
		want := uint64(len(cpX.SendSeq[pr]) + 1)
		if got := sh.NextSeqSend(pr.Src, pr.Dst); got != want {
			c.Violate("C09/sequence-reuse-after-genesis-restart", "%s restarted from its exported genesis would give the next packet to %s sequence %d, but %d packets were already sent (next must be %d)",
				X.Name, pr.Dst, got, want-1, want)
		}
		w.Stats.Inc("probe-restart-sequence-checked")
	}
	w.Stats.Add("sends-ok", sends)
	w.Stats.Add("sends-failing-txs", failing)
	c.Nontrivial = sends >= 5 && failing >= 2
	_ = nfttypes.ModuleName
	_ = mttypes.ModuleName
}

func minU64(a, b uint64) uint64 {
	if a < b {
		return a
	}
	return b
}

func c09Route(c *core.Ctx, e *scen.Engine, n *world.Node) (string, string) {
	ch := c.Ch
	var others []*world.Node
	for _, o := range e.W.Nodes {
		if o != n {
			others = append(others, o)
		}
	}
	d := others[ch.Int(len(others))]
	relay := ""
	if len(others) >= 2 && ch.Bool(1, 3) {
		for _, o := range others {
			if o != d {
				relay = o.Name
			}
		}
	}
	return d.Name, relay
}
