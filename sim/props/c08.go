package props

import (
	"bytes"
	"fmt"
	"math/big"
	"sort"
	"strings"
	"time"

	sdk "github.com/cosmos/cosmos-sdk/types"
	"github.com/ethereum/go-ethereum/common"

	clienttypes "github.com/bianjieai/tibc-go/modules/tibc/core/02-client/types"
	commitmenttypes "github.com/bianjieai/tibc-go/modules/tibc/core/23-commitment/types"
	"github.com/bianjieai/tibc-go/modules/tibc/core/exported"
	tmclient "github.com/bianjieai/tibc-go/modules/tibc/light-clients/07-tendermint/types"
	bscclient "github.com/bianjieai/tibc-go/modules/tibc/light-clients/08-bsc/types"
	ethclient "github.com/bianjieai/tibc-go/modules/tibc/light-clients/09-eth/types"

	"tibcsim/core"
	"tibcsim/foreign/mpt"
	"tibcsim/world"
)

// C08: state-proof verification is sound and complete for every client type.
//
// The counterparty's state is a model the harness owns (what is stored under
// which protocol key at which height); roots reach the client only through
// real header updates.  Every probe calls the exported Verify* method of the
// real client state on a read-only context and compares with:
//   success  =>  the claimed value is stored under the protocol-defined key in
//                the state of the proof height  AND  height <= latest  AND  the
//                confirmation delay has elapsed               (soundness)
//   honest proof of a true fact with elapsed delay  =>  success   (completeness)

func init() {
	register(&core.Profile{Name: "c08-tendermint-proofs", Property: "C08", Weight: 2, Run: runC08TM,
		Doc: "Tendermint client of a real SimApp counterparty whose tibc store is filled with arbitrary commitment / ack / clean-point entries over the identifier alphabet; client updated at several heights at different host times, TimeDelay from 0 to 2^64-1; probes: honest, other key, other height, other kind, mutated value, truncated / corrupted proof, unknown or future height, host clock around processedTime+delay"})
	register(&core.Profile{Name: "c08-eth-proofs", Property: "C08", Weight: 1, Run: func(c *core.Ctx) { runC08Evm(c, "eth") },
		Doc: "ETH client whose headers carry the state root of a modelled contract storage (real go-ethereum Merkle-Patricia account + storage proofs); same probe families plus wrong contract address, wrong slot, block-delay boundaries"})
	register(&core.Profile{Name: "c08-bsc-proofs", Property: "C08", Weight: 1, Run: func(c *core.Ctx) { runC08Evm(c, "bsc") },
		Doc: "same for the BSC client (delay = 2N/3+1 blocks)"})
}

type c08Fact struct {
	Kind     int // 0 commitment, 1 ack, 2 clean
	Src, Dst string
	Seq      uint64
}

var c08KindNames = []string{"commitment", "ack", "clean"}

func (f c08Fact) path() string {
	switch f.Kind {
	case 0:
		return mpt.CommitmentPath(f.Src, f.Dst, f.Seq)
	case 1:
		return mpt.AckPath(f.Src, f.Dst, f.Seq)
	}
	return mpt.CleanPath(f.Src, f.Dst)
}

var c08Names = []string{"chainaaaa", "chainbbbb", "chain.x+y", "a_b-c#1", "ch[1]<2>", "chainaaab"}

func c08U64(v uint64) []byte {
	b := make([]byte, 8)
	for i := 7; i >= 0; i-- {
		b[i] = byte(v)
		v >>= 8
	}
	return b
}

func c08RandFact(c *core.Ctx) c08Fact {
	ch := c.Ch
	return c08Fact{Kind: ch.Pick([]int{4, 4, 2}), Src: c08Names[ch.Int(len(c08Names))], Dst: c08Names[ch.Int(len(c08Names))], Seq: uint64(1 + ch.Int(4))}
}

func c08Value(c *core.Ctx, f c08Fact) []byte {
	if f.Kind == 2 {
		return c08U64(f.Seq)
	}
	v := make([]byte, 32)
	x := c.Ch.Uint64()
	for i := range v {
		v[i] = byte(x >> (uint(i%8) * 8))
		if i%8 == 7 {
			x = x*6364136223846793005 + 1442695040888963407
		}
	}
	if c.Ch.Bool(1, 5) {
		v[0] = 0 // leading zero byte: exercises trimmed storage words
	}
	return v
}

// mutateValue returns a claimed value that differs from the true one.
func c08MutateValue(c *core.Ctx, v []byte) ([]byte, string) {
	ch := c.Ch
	out := append([]byte(nil), v...)
	switch ch.Int(4) {
	case 0:
		out[ch.Int(len(out))] ^= byte(1 << uint(ch.Int(8)))
		return out, "flip"
	case 1:
		return out[:len(out)-1], "shorter"
	case 2:
		return append(out, 0), "longer"
	default:
		out[len(out)-1]++
		return out, "plus-one"
	}
}

// ---------------------------------------------------------------- Tendermint

func runC08TM(c *core.Ctx) {
	ch := c.Ch
	w, err := world.NewWorld(c.Ch, world.WorldConfig{ChainNames: []string{"chainaaaa", "chainbbbb"}})
	c.Check(err)
	c.W = w
	A, B := w.Nodes[0], w.Nodes[1]
	delays := []uint64{0, 0, 5e9, 3600e9, 1 << 63, 1<<64 - 1}
	p := world.DefaultClientParams()
	p.TimeDelay = delays[ch.Int(len(delays))]
	c.Check(w.CreateClient(A, B, p))
	_, err = w.Block(A, nil, world.NoCrash)
	c.Check(err)
	created := A.LastTime // processed time of the initial consensus state is the set-up context's block time
	_ = created

	facts := map[int64]map[c08Fact][]byte{} // B height -> store model
	cur := map[c08Fact][]byte{}
	processed := map[uint64]*big.Int{} // consensus height -> processed time (ns) on A
	upgradedAt := uint64(0)            // height the client was upgraded to by governance (0 = never)
	// the creation height's processed time is read back (set-up is not under test)
	latest0, _ := w.ClientLatest(A, B.Name)
	snapshot := func() {
		m := map[c08Fact][]byte{}
		for k, v := range cur {
			m[k] = v
		}
		facts[B.Height] = m
	}
	for h := int64(1); h <= B.Height; h++ {
		facts[h] = map[c08Fact][]byte{}
	}
	rounds := 3 + ch.Int(4)
	for r := 0; r < rounds; r++ {
		c.Step("c08-fill")
		ctx := B.SetupCtx()
		pk := B.App.TIBCKeeper.PacketKeeper
		n := 1 + ch.Int(5)
		for i := 0; i < n; i++ {
			f := c08RandFact(c)
			v := c08Value(c, f)
			switch f.Kind {
			case 0:
				pk.SetPacketCommitment(ctx, f.Src, f.Dst, f.Seq, v)
			case 1:
				pk.SetPacketAcknowledgement(ctx, f.Src, f.Dst, f.Seq, v)
			case 2:
				pk.SetCleanPacketCommitment(ctx, f.Src, f.Dst, f.Seq)
				// the clean point of a pair is a single entry
				for k := range cur {
					if k.Kind == 2 && k.Src == f.Src && k.Dst == f.Dst {
						delete(cur, k)
					}
				}
			}
			cur[f] = v
		}
		_, err := w.Block(B, nil, world.NoCrash)
		c.Check(err)
		snapshot()
		if ch.Bool(1, 2) {
			_, err := w.Block(B, nil, world.NoCrash)
			c.Check(err)
			snapshot()
		}
		w.Tick(time.Duration(1+ch.Int(7200)) * time.Second)
		// header of height h carries the state after block h-1: update to B's latest
		_, err = w.Block(B, nil, world.NoCrash)
		c.Check(err)
		snapshot()
		msg, err := w.MsgUpdate(A, B, B.Height, w.Relayers[0])
		c.Check(err)
		res, err := w.One(A, &world.TxReq{Signer: w.Relayers[0], Msgs: []sdk.Msg{msg}, Label: "update(" + B.Name + ")"})
		c.Check(err)
		if !res.OK() {
			c.Failf("honest update failed: %s", res.Log)
		}
		processed[uint64(B.Height)] = big.NewInt(A.TimeAt(res.Height).UnixNano())
	}
	// back-fill: headers for heights below the latest one, trusted on an older stored state,
	// submitted later (their roots are new information: the delay counts from now)
	{
		var ks []uint64
		for h := range processed {
			ks = append(ks, h)
		}
		sort.Slice(ks, func(i, j int) bool { return ks[i] < ks[j] })
		fills := ch.Int(4)
		for f := 0; f < fills && len(ks) >= 2; f++ {
			c.Step("c08-backfill")
			i := ch.Int(len(ks) - 1)
			lo, hi := ks[i], ks[i+1]
			if hi-lo < 2 {
				continue
			}
			h := lo + 1 + uint64(ch.Int(int(hi-lo-1)))
			if _, ok := processed[h]; ok {
				continue
			}
			w.Tick(time.Duration(1+ch.Int(7200)) * time.Second)
			hdr, err := B.UpdateHeader(int64(h), clienttypes.NewHeight(world.Revision(B.Name), lo))
			c.Check(err)
			msg, err := clienttypes.NewMsgUpdateClient(B.Name, hdr, w.Relayers[0].Addr)
			c.Check(err)
			res, err := w.One(A, &world.TxReq{Signer: w.Relayers[0], Msgs: []sdk.Msg{msg}, Label: fmt.Sprintf("backfill(%s #%d trusting %d)", B.Name, h, lo)})
			c.Check(err)
			if res.OK() {
				processed[h] = big.NewInt(A.TimeAt(res.Height).UnixNano())
				w.Stats.Inc("probe-backfilled-consensus-state")
			}
		}
	}
	// governance upgrade of the client to a newer height of B (how an expired or stuck client is
	// recovered): the root recorded by the upgrade is as good as one recorded by an update, and
	// the confirmation delay counts from the block that executed the upgrade.  (No new tape
	// segment: recorded runs replay unchanged.)
	if ch.Int(3) == 1 {
		w.Tick(time.Duration(1+ch.Int(7200)) * time.Second)
		for i := 0; i < 2; i++ {
			_, err := w.Block(B, nil, world.NoCrash)
			c.Check(err)
			snapshot()
		}
		h := B.Height
		cons, err := B.ConsensusStateAt(h)
		c.Check(err)
		cs := tmclient.NewClientState(B.Name, p.TrustLevel, p.TrustingPeriod, p.Unbonding, p.MaxClockDrift,
			clienttypes.NewHeight(world.Revision(B.Name), uint64(h)), commitmenttypes.GetSDKSpecs(), world.TibcPrefix, p.TimeDelay)
		tUp := w.TimeOn(A)
		c.Check(A.App.TIBCKeeper.ClientKeeper.UpgradeClient(A.SetupCtx().WithBlockTime(tUp), B.Name, cs, cons))
		_, err = w.Block(A, nil, world.NoCrash)
		c.Check(err)
		processed[uint64(h)] = big.NewInt(tUp.UnixNano())
		upgradedAt = uint64(h)
		w.Stats.Inc("client-upgraded-by-governance")
		w.Log.Add("client %s on %s upgraded to height %d at %d", B.Name, A.Name, h, tUp.UnixNano())
	}
	latest, _ := w.ClientLatest(A, B.Name)
	known := func(h uint64) bool { _, ok := processed[h]; return ok }
	delay := new(big.Int).SetUint64(p.TimeDelay)

	var allFacts []c08Fact
	seen := map[c08Fact]bool{}
	for _, m := range facts {
		for f := range m {
			if !seen[f] {
				seen[f] = true
				allFacts = append(allFacts, f)
			}
		}
	}
	sort.Slice(allFacts, func(i, j int) bool { return fmt.Sprint(allFacts[i]) < fmt.Sprint(allFacts[j]) })
	var heights []uint64
	for h := range processed {
		heights = append(heights, h)
	}
	sort.Slice(heights, func(i, j int) bool { return heights[i] < heights[j] })
	if len(allFacts) == 0 || len(heights) == 0 {
		return
	}
	probes, accepted := 0, 0
	nprobes := 40 + ch.Int(40)
	for i := 0; i < nprobes; i++ {
		c.Step("c08-probe")
		f := allFacts[ch.Int(len(allFacts))]
		h := heights[ch.Int(len(heights))]
		truth, has := facts[int64(h)-1][f]
		claim := truth
		claimFact := f
		proofFact := f
		proofVersion := int64(h) - 1
		claimHeight := h
		tamper := ""
		honest := true
		if !has {
			claim = c08Value(c, f)
			honest = false
			tamper = "absent"
		}
		switch ch.Pick([]int{30, 12, 8, 8, 8, 8, 8, 6, 6}) {
		case 0:
		case 1:
			if has {
				var how string
				claim, how = c08MutateValue(c, truth)
				if f.Kind == 2 {
					// the clean claim is the sequence itself
					claimFact.Seq = f.Seq + 1 + uint64(ch.Int(3))
					claim = c08U64(claimFact.Seq)
					how = "other-sequence"
				}
				tamper, honest = "value-"+how, false
			}
		case 2: // proof of another key
			proofFact = allFacts[ch.Int(len(allFacts))]
			if proofFact != f {
				tamper, honest = "proof-of-other-key", false
			}
		case 3: // claim another sequence / pair with the proof of this one
			claimFact.Seq += uint64(1 + ch.Int(2))
			if f.Kind == 2 {
				claim = c08U64(claimFact.Seq)
			}
			tamper, honest = "claim-other-sequence", false
		case 4: // proof from another version
			h2 := heights[ch.Int(len(heights))]
			if h2 != h {
				proofVersion = int64(h2) - 1
				tamper, honest = "proof-of-other-height", false
			}
		case 5: // kind confusion
			claimFact.Kind = (f.Kind + 1) % 2
			if f.Kind != 2 {
				tamper, honest = "other-kind", false
			}
		case 6: // unknown / future height
			if ch.Bool(1, 2) {
				claimHeight = latest.RevisionHeight + 1 + uint64(ch.Int(3))
				tamper = "height-above-latest"
			} else {
				claimHeight = h - 1
				if known(claimHeight) {
					claimHeight = h
				} else {
					tamper = "height-without-consensus-state"
				}
			}
			if tamper != "" {
				honest = false
			}
		case 7: // corrupted proof bytes
			tamper, honest = "proof-bytes", false
		case 8:
			tamper, honest = "proof-truncated", false
		}
		key := []byte(proofFact.path())
		if proofVersion < 1 {
			proofVersion = 1
		}
		proof, _, _, err := B.ProofAt(key, proofVersion)
		if err != nil {
			continue
		}
		switch tamper {
		case "proof-bytes":
			proof[ch.Int(len(proof))] ^= byte(1 << uint(ch.Int(8)))
		case "proof-truncated":
			proof = proof[:len(proof)/2+ch.Int(len(proof)/2)]
		}
		// host clock around processed + delay
		var now *big.Int
		base := new(big.Int)
		if pt, ok := processed[claimHeight]; ok {
			base.Add(pt, delay)
		} else {
			base.SetInt64(A.LastTime.UnixNano())
		}
		timing := ch.Pick([]int{5, 2, 1, 2})
		switch timing {
		case 0:
			now = new(big.Int).Add(base, big.NewInt(int64(1+ch.Int(1_000_000_000))*int64(1+ch.Int(5000))))
		case 1:
			now = new(big.Int).Add(base, big.NewInt(1))
		case 2:
			now = new(big.Int).Set(base)
		default:
			now = new(big.Int).Sub(base, big.NewInt(int64(1+ch.Int(2_000_000_000))))
		}
		// the host clock is a time.Time: representable range only, never before the last block
		maxNs := new(big.Int).SetInt64(1<<63 - 1)
		if now.Cmp(maxNs) > 0 {
			now = new(big.Int).Sub(maxNs, big.NewInt(int64(ch.Int(1000))))
		}
		if now.Cmp(big.NewInt(A.LastTime.UnixNano())) < 0 {
			now = big.NewInt(A.LastTime.UnixNano() + int64(ch.Int(1000)))
		}
		delayOK, delayOpen := false, false
		if pt, ok := processed[claimHeight]; ok {
			lim := new(big.Int).Add(pt, delay)
			switch now.Cmp(lim) {
			case 1:
				delayOK = true
			case 0:
				delayOpen = true
			}
		}
		ctx := A.QueryCtxAt(time.Unix(0, now.Int64()).UTC())
		cs, _ := A.App.TIBCKeeper.ClientKeeper.GetClientState(ctx, B.Name)
		store := A.App.TIBCKeeper.ClientKeeper.ClientStore(ctx, B.Name)
		cdc := A.App.AppCodec()
		height := clienttypes.NewHeight(world.Revision(B.Name), claimHeight)
		var verr error
		switch claimFact.Kind {
		case 0:
			verr = cs.VerifyPacketCommitment(ctx, store, cdc, height, proof, claimFact.Src, claimFact.Dst, claimFact.Seq, claim)
		case 1:
			verr = cs.VerifyPacketAcknowledgement(ctx, store, cdc, height, proof, claimFact.Src, claimFact.Dst, claimFact.Seq, claim)
		default:
			verr = cs.VerifyPacketCleanCommitment(ctx, store, cdc, height, proof, claimFact.Src, claimFact.Dst, claimFact.Seq)
		}
		probes++
		ok := verr == nil
		// model
		stored, exists := facts[int64(claimHeight)-1][claimFact]
		if claimFact.Kind == 2 {
			// clean: the claim is "the clean point of (src,dst) is Seq"
			exists = false
			for k := range facts[int64(claimHeight)-1] {
				if k.Kind == 2 && k.Src == claimFact.Src && k.Dst == claimFact.Dst && k.Seq == claimFact.Seq {
					exists, stored = true, c08U64(k.Seq)
				}
			}
			claim = c08U64(claimFact.Seq)
		}
		factTrue := exists && bytes.Equal(stored, claim)
		heightOK := claimHeight <= latest.RevisionHeight
		w.Stats.Inc("tm-probe-" + map[string]string{"": "honest"}[tamper] + tamper)
		c.Op(fmt.Sprintf("tm/%s/%v", tamper, ok))
		if ok {
			accepted++
			reason := ""
			switch {
			case !heightOK:
				reason = "height-above-latest"
			case !known(claimHeight):
				reason = "no-consensus-state"
			case !factTrue:
				reason = "value-not-stored"
			case !delayOK && !delayOpen:
				reason = "delay-not-elapsed"
			}
			if reason != "" {
				c.Violate("C08/tendermint/accepted/"+reason+"/"+c08KindNames[claimFact.Kind], "Verify %s(%s,%s,%d) at height %d succeeded (probe %q, delay %d ns, now-(processed+delay)=%s ns): %s",
					c08KindNames[claimFact.Kind], claimFact.Src, claimFact.Dst, claimFact.Seq, claimHeight, tamper, p.TimeDelay, c08Delta(now, processed[claimHeight], delay), reason)
			}
		} else if honest && has && factTrue && heightOK && known(claimHeight) && delayOK {
			at := ""
			if claimHeight == upgradedAt {
				at = "@upgraded-height" // the consensus state recorded by a governance upgrade
			}
			c.Violate("C08/tendermint/rejected-honest/"+c08KindNames[claimFact.Kind]+at, "honest proof of %s(%s,%s,%d) at height %d%s with elapsed delay was rejected: %v",
				c08KindNames[claimFact.Kind], claimFact.Src, claimFact.Dst, claimFact.Seq, claimHeight, at, verr)
		}
		if timing == 2 {
			w.Stats.Inc("probe-now-eq-processed+delay")
		}
	}
	w.Stats.Add("probes", probes)
	w.Stats.Add("probes-accepted", accepted)
	if p.TimeDelay >= 1<<63 {
		w.Stats.Inc("probe-delay>=2^63")
	}
	w.Log.Add("tendermint probes=%d accepted=%d delay=%d facts=%d heights=%d", probes, accepted, p.TimeDelay, len(allFacts), len(heights))
	_ = latest0
	c.Nontrivial = probes >= 20 && accepted >= 1
}

func c08Delta(now, processed, delay *big.Int) string {
	if processed == nil {
		return "n/a"
	}
	return new(big.Int).Sub(now, new(big.Int).Add(processed, delay)).String()
}

// ---------------------------------------------------------------- ETH / BSC

type evmVerifier interface {
	exported.ClientState
}

func runC08Evm(c *core.Ctx, kind string) {
	ch := c.Ch
	w, err := world.NewWorld(c.Ch, world.WorldConfig{ChainNames: []string{"chainaaaa"}})
	c.Check(err)
	c.W = w
	A := w.Nodes[0]
	name := kind + "-chain1"
	var next func(root []byte) (uint64, bool)
	var contract common.Address
	var delayBlocks func() uint64
	if kind == "eth" {
		f := AddEthClient(c, w, A, name, 0)
		contract = common.BytesToAddress(bytes.Repeat([]byte{0xc1}, 20))
		bd := uint64(ch.Int(4))
		c08SetBlockDelay(c, A, name, bd)
		next = func(root []byte) (uint64, bool) {
			h, r := f.Next(c, w, root)
			return h.Height.RevisionHeight, r.OK()
		}
		delayBlocks = func() uint64 { return bd }
	} else {
		f := AddBscClient(c, w, A, name, 0)
		cs, _ := A.ClientState(name)
		contract = common.BytesToAddress(cs.(*bscclient.ClientState).ContractAddress)
		next = func(root []byte) (uint64, bool) {
			h, r := f.Next(c, w, root)
			if h == nil {
				return 0, false
			}
			return h.Height.RevisionHeight, r.OK()
		}
		delayBlocks = func() uint64 {
			cs, _ := A.ClientState(name)
			return cs.GetDelayBlock()
		}
	}
	state := mpt.NewState(contract)
	for i := 0; i < 3+ch.Int(5); i++ {
		state.Others[common.BigToAddress(new(big.Int).SetUint64(ch.Uint64()))] = uint64(1 + ch.Int(100))
	}
	states := map[uint64]*mpt.State{}
	factsAt := map[uint64]map[c08Fact][]byte{}
	cur := map[c08Fact][]byte{}
	var heights []uint64
	var allFacts []c08Fact
	seen := map[c08Fact]bool{}
	rounds := 6 + ch.Int(20)
	for r := 0; r < rounds; r++ {
		c.Step("c08-" + kind + "-fill")
		if r < 8 || ch.Bool(1, 3) {
			for i := 0; i < 1+ch.Int(3); i++ {
				f := c08RandFact(c)
				v := c08Value(c, f)
				if f.Kind == 2 {
					for k := range cur {
						if k.Kind == 2 && k.Src == f.Src && k.Dst == f.Dst {
							delete(cur, k)
						}
					}
				}
				cur[f] = v
				state.Storage[mpt.Slot(f.path())] = mpt.Word(v)
				if !seen[f] {
					seen[f] = true
					allFacts = append(allFacts, f)
				}
			}
			state.Nonce++
		}
		root := state.Root()
		h, ok := next(root[:])
		if !ok {
			if h == 0 {
				continue
			}
			c.Failf("honest %s header %d refused", kind, h)
		}
		states[h] = state.Clone()
		m := map[c08Fact][]byte{}
		for k, v := range cur {
			m[k] = v
		}
		factsAt[h] = m
		heights = append(heights, h)
	}
	if len(heights) == 0 || len(allFacts) == 0 {
		return
	}
	latest := heights[len(heights)-1]
	probes, accepted := 0, 0
	nprobes := 40 + ch.Int(40)
	for i := 0; i < nprobes; i++ {
		c.Step("c08-" + kind + "-probe")
		f := allFacts[ch.Int(len(allFacts))]
		// bias towards heights around the delay boundary
		h := heights[ch.Int(len(heights))]
		if d := delayBlocks(); ch.Bool(1, 2) && latest >= heights[0]+d {
			cand := latest - d + uint64(ch.Int(3)) - 1
			if _, ok := states[cand]; ok {
				h = cand
			}
		}
		truth, has := factsAt[h][f]
		claim := append([]byte(nil), truth...)
		claimFact := f
		claimHeight := h
		tamper := ""
		honest := true
		if !has {
			claim = c08Value(c, f)
			honest, tamper = false, "absent"
		}
		proofState := states[h]
		pj := proofState.Prove(mpt.Slot(f.path()))
		switch ch.Pick([]int{30, 10, 8, 8, 8, 6, 6, 6, 6, 6}) {
		case 0:
		case 1:
			if has {
				var how string
				claim, how = c08MutateValue(c, truth)
				if f.Kind == 2 {
					claimFact.Seq = f.Seq + 1 + uint64(ch.Int(3))
					claim = c08U64(claimFact.Seq)
					how = "other-sequence"
				}
				tamper, honest = "value-"+how, false
			}
		case 2: // proof for another slot
			o := allFacts[ch.Int(len(allFacts))]
			if o != f {
				pj = proofState.Prove(mpt.Slot(o.path()))
				tamper, honest = "proof-of-other-slot", false
			}
		case 3: // proof from the state of another height
			h2 := heights[ch.Int(len(heights))]
			if h2 != h {
				pj = states[h2].Prove(mpt.Slot(f.path()))
				tamper, honest = "proof-of-other-height", false
			}
		case 4: // other contract address
			other := proofState.Clone()
			other.Contract = common.BigToAddress(new(big.Int).SetUint64(ch.Uint64()))
			pj = other.Prove(mpt.Slot(f.path()))
			tamper, honest = "other-contract", false
		case 5: // height variants
			if ch.Bool(1, 2) {
				claimHeight = latest + 1 + uint64(ch.Int(3))
				tamper = "height-above-latest"
			} else {
				claimHeight = heights[0] - 1 - uint64(ch.Int(3))
				tamper = "height-without-consensus-state"
			}
			honest = false
		case 6: // truncated node lists
			q := pj.Clone()
			if len(q.StorageProof[0].Proof) > 0 && ch.Bool(1, 2) {
				q.StorageProof[0].Proof = q.StorageProof[0].Proof[:len(q.StorageProof[0].Proof)-1]
			} else if len(q.AccountProof) > 0 {
				q.AccountProof = q.AccountProof[:len(q.AccountProof)-1]
			}
			pj = q
			tamper, honest = "proof-truncated", false
		case 7: // reordered / duplicated nodes (still a valid proof)
			q := pj.Clone()
			sp := q.StorageProof[0].Proof
			for a, b := 0, len(sp)-1; a < b; a, b = a+1, b-1 {
				sp[a], sp[b] = sp[b], sp[a]
			}
			q.AccountProof = append(q.AccountProof, q.AccountProof...)
			pj = q
			tamper, honest = "proof-reordered", false
		case 8: // storage proof list shape
			q := pj.Clone()
			if ch.Bool(1, 2) {
				q.StorageProof = nil
			} else {
				q.StorageProof = append(q.StorageProof, q.StorageProof[0])
			}
			pj = q
			tamper, honest = "storage-proof-count", false
		case 9: // claim about another sequence with this proof
			claimFact.Seq += uint64(1 + ch.Int(2))
			if f.Kind == 2 {
				claim = c08U64(claimFact.Seq)
			}
			tamper, honest = "claim-other-sequence", false
		}
		ctx := A.QueryCtx()
		cs, _ := A.App.TIBCKeeper.ClientKeeper.GetClientState(ctx, name)
		store := A.App.TIBCKeeper.ClientKeeper.ClientStore(ctx, name)
		cdc := A.App.AppCodec()
		height := clienttypes.NewHeight(0, claimHeight)
		proof := pj.Bytes()
		var verr error
		func() {
			defer func() {
				if r := recover(); r != nil {
					verr = fmt.Errorf("panic: %v", r)
					w.Stats.Inc("verify-panicked")
				}
			}()
			switch claimFact.Kind {
			case 0:
				verr = cs.VerifyPacketCommitment(ctx, store, cdc, height, proof, claimFact.Src, claimFact.Dst, claimFact.Seq, claim)
			case 1:
				verr = cs.VerifyPacketAcknowledgement(ctx, store, cdc, height, proof, claimFact.Src, claimFact.Dst, claimFact.Seq, claim)
			default:
				verr = cs.VerifyPacketCleanCommitment(ctx, store, cdc, height, proof, claimFact.Src, claimFact.Dst, claimFact.Seq)
			}
		}()
		probes++
		ok := verr == nil
		// model
		st, known := states[claimHeight]
		heightOK := claimHeight <= latest
		factTrue, factOpen := false, false
		if known {
			word := st.Storage[mpt.Slot(claimFact.path())]
			want := claim
			if claimFact.Kind == 2 {
				want = c08U64(claimFact.Seq)
			}
			if len(word) == 32 && new(big.Int).SetBytes(word).Cmp(new(big.Int).SetBytes(want)) == 0 && new(big.Int).SetBytes(word).Sign() != 0 {
				if claimFact.Kind == 2 || len(want) == 32 {
					factTrue = true
				} else {
					factOpen = true // same number, other length: the statement does not say
				}
			}
		}
		delayOK := known && heightOK && latest-claimHeight >= delayBlocks()
		w.Stats.Inc(kind + "-probe-" + map[string]string{"": "honest"}[tamper] + tamper)
		c.Op(fmt.Sprintf("%s/%s/%v", kind, tamper, ok))
		if ok {
			accepted++
			reason := ""
			switch {
			case !heightOK:
				reason = "height-above-latest"
			case !known:
				reason = "no-consensus-state"
			case !factTrue && !factOpen:
				reason = "value-not-stored"
			case !delayOK:
				reason = "delay-not-elapsed"
			}
			if reason != "" {
				c.Violate("C08/"+kind+"/accepted/"+reason+"/"+c08KindNames[claimFact.Kind], "Verify %s(%s,%s,%d) at height %d succeeded (probe %q, latest %d, delay %d blocks): %s",
					c08KindNames[claimFact.Kind], claimFact.Src, claimFact.Dst, claimFact.Seq, claimHeight, tamper, latest, delayBlocks(), reason)
			}
		} else if honest && has && factTrue && heightOK && known && delayOK {
			c.Violate("C08/"+kind+"/rejected-honest/"+c08KindNames[claimFact.Kind], "honest account+storage proof of %s(%s,%s,%d) at height %d (latest %d, delay %d blocks) was rejected: %s",
				c08KindNames[claimFact.Kind], claimFact.Src, claimFact.Dst, claimFact.Seq, claimHeight, latest, delayBlocks(), world.Short(fmt.Sprint(verr), 200))
		}
		if known && heightOK && latest-claimHeight == delayBlocks() {
			w.Stats.Inc("probe-exactly-delay-blocks")
		}
		if strings.HasPrefix(tamper, "proof-reordered") && ok {
			w.Stats.Inc("probe-reordered-proof-accepted")
		}
	}
	w.Stats.Add("probes", probes)
	w.Stats.Add("probes-accepted", accepted)
	w.Log.Add("%s probes=%d accepted=%d heights=%d facts=%d delayBlocks=%d", kind, probes, accepted, len(heights), len(allFacts), delayBlocks())
	c.Nontrivial = probes >= 20
}

// c08SetBlockDelay rewrites the block delay of the ETH client (set-up).
func c08SetBlockDelay(c *core.Ctx, n *world.Node, name string, d uint64) {
	ctx := n.SetupCtx()
	cs, ok := n.App.TIBCKeeper.ClientKeeper.GetClientState(ctx, name)
	if !ok {
		c.Failf("client %s not found", name)
	}
	e, ok := cs.(*ethclient.ClientState)
	if !ok {
		c.Failf("client %s is not an ETH client", name)
	}
	e.BlockDelay = d
	n.App.TIBCKeeper.ClientKeeper.SetClientState(ctx, name, e)
	_, err := c.W.Block(n, nil, world.NoCrash)
	c.Check(err)
}
