package props

import (
	"bytes"
	"fmt"
	"sort"

	"github.com/cosmos/gogoproto/proto"
	"github.com/ethereum/go-ethereum/common"

	sdk "github.com/cosmos/cosmos-sdk/types"

	clienttypes "github.com/bianjieai/tibc-go/modules/tibc/core/02-client/types"
	bsctypes "github.com/bianjieai/tibc-go/modules/tibc/light-clients/08-bsc/types"

	"tibcsim/core"
	"tibcsim/foreign/bsc"
	"tibcsim/model"
	"tibcsim/world"
)

// C17: the BSC client follows only a correctly sealed, hash-linked header chain.
//
// World: one real SimApp host chain with a real 08-bsc client of a modelled
// BSC chain (foreign/bsc).  Every header goes through a real MsgUpdateClient
// transaction signed by a registered relayer.
//
// Oracles:
//   (a) verdict equality with model.ParliaModel (written from the statement):
//       C17/rejected-valid/<kind>/<codespace>-<code>, C17/accepted-invalid/<rule>
//   (b) after acceptance the client state is the header's:
//       C17/state-after-accept/<what>
//   (c) a rejected update leaves the tibc store byte-identical:
//       C17/rejected-but-state-changed
//   (d) crash variant: after a restart the committed client state is the
//       model's: C17/state-after-restart/<what>

const c17Client = "bsc-chain1"

func init() {
	register(&core.Profile{Name: "c17-bsc-chain", Property: "C17", Weight: 3, Run: func(c *core.Ctx) { runC17(c, false) },
		Doc: "one host chain with a BSC client of a seeded Parlia chain (sets of 1-21 validators, epochs 5-40, rotations, in-/out-of-turn sealers, low and high start heights); valid headers, single-field corruptions, skipped/old/sibling headers, all as MsgUpdateClient txs"})
	register(&core.Profile{Name: "c17-bsc-chain-crash", Property: "C17", Weight: 1, Fault: true, Run: func(c *core.Ctx) { runC17(c, true) },
		Doc: "same with host crash/restart between and during updates (before finalize, between finalize and commit, after commit)"})
}

type c17Run struct {
	c        *core.Ctx
	w        *world.World
	n        *world.Node
	chain    *bsc.Chain
	static   *bsctypes.ClientState
	accepted int
	corrupt  int
	upAt     uint64 // height governance upgraded the client to (0 = never)
}

// after is appended to verdict signatures once the client was upgraded by governance.
func (r *c17Run) after() string {
	if r.upAt != 0 {
		return "@after-upgrade"
	}
	return ""
}

// upgrade lets governance fast-forward the client: the chain advances (unseen by the
// client) to its next epoch header, and MsgUpgradeClient installs that header with the
// validator set in force and the recent signers a client that had followed would hold.
func (r *c17Run) upgrade() {
	c, w, n, chain := r.c, r.w, r.n, r.chain
	for i := 0; ; i++ {
		if i > int(chain.Cfg.Epoch)+1 {
			return
		}
		sub, err := chain.NextValid()
		c.Check(err)
		if sub == nil {
			return // nobody may seal: the chain is stuck
		}
		res := chain.M.Check(sub.Header)
		if res.Verdict == model.ParliaInvalid {
			c.Failf("generator produced an invalid header while advancing to the upgrade height: %s", res.Reason)
		}
		chain.Accept(sub.Header, res.Signer, res.SignerOK)
		if sub.Header.Height.RevisionHeight%chain.Cfg.Epoch == 0 {
			break
		}
	}
	m := chain.M
	var hs []uint64
	for h := range m.Recents {
		hs = append(hs, h)
	}
	sort.Slice(hs, func(i, j int) bool { return hs[i] < hs[j] })
	var recents []bsctypes.Signer
	for _, h := range hs {
		recents = append(recents, bsctypes.Signer{Height: clienttypes.NewHeight(0, h), Validator: m.Recents[h].Bytes()})
	}
	cs := *r.static
	cs.Header = *model.CloneBscHeader(m.Latest)
	cs.Validators = bsc.AddrBytes(m.InForce)
	cs.RecentSigners = recents
	cons := &bsctypes.ConsensusState{Timestamp: m.Latest.Time, Number: m.Latest.Height, Root: append([]byte{}, m.Latest.Root...)}
	ctx := n.SetupCtx().WithBlockTime(w.TimeOn(n))
	c.Check(n.App.TIBCKeeper.ClientKeeper.UpgradeClient(ctx, c17Client, &cs, cons))
	_, err := w.Block(n, nil, world.NoCrash)
	c.Check(err)
	r.upAt = m.Latest.Height.RevisionHeight
	w.Stats.Inc("client-upgraded-by-governance")
	w.Log.Add("bsc client upgraded by governance to epoch header #%d (set in force %d, pending=%v)", r.upAt, len(m.InForce), m.HasPending)
	c.Op("upgrade")
	if what, detail := r.compareState(); what != "" {
		c.Violate("C17/state-after-upgrade/"+what, "after the governance upgrade to #%d: %s", r.upAt, detail)
	}
}

func runC17(c *core.Ctx, crashes bool) {
	ch := c.Ch
	w, err := world.NewWorld(ch, world.WorldConfig{ChainNames: []string{"chain-aaa"}})
	c.Check(err)
	c.W = w
	n := w.Nodes[0]

	// ---- the foreign chain
	epoch := uint64(ch.Range(5, 40))
	if ch.Bool(1, 4) {
		epoch = uint64(ch.Range(5, 9)) // very short epochs: many rotations
	}
	var start uint64
	startKind := ch.Pick([]int{4, 2, 5})
	switch startKind {
	case 0:
		start = 0 // genesis
	case 1:
		start = epoch * uint64(ch.Range(1, 3))
	default:
		start = epoch * uint64(100_000+ch.Int(2_000_000))
	}
	maxN := bsc.MaxSizeFor(epoch)
	size := ch.Range(1, maxN)
	if ch.Bool(1, 3) {
		size = ch.Range((maxN+1)/2, maxN) // large sets: long recency windows
	}
	cfg := bsc.Config{
		ChainID: []uint64{56, 97, 1337}[ch.Int(3)], Epoch: epoch, Start: start, InitialSize: size,
		StartTime: uint64(w.Base.Unix()) - 3600 + uint64(ch.Int(1800)),
	}
	chain, err := bsc.NewChain(ch, cfg)
	c.Check(err)
	w.Log.Add("bsc chain id=%d epoch=%d start=%d set=%d listed=%d", cfg.ChainID, epoch, start, len(chain.M.InForce), len(chain.M.Pending))
	if start <= uint64(maxN/2) {
		w.Stats.Inc("start-low-height")
	} else {
		w.Stats.Inc("start-high-height")
	}
	w.Stats.Inc("probe-set-size-" + c17SizeBucket(len(chain.M.InForce)))
	if start == 0 {
		w.Stats.Inc("start-genesis")
	} else if start <= 3*epoch {
		w.Stats.Inc("start-first-epochs")
	}

	// ---- the client (set-up by keeper call, then a block)
	cs, cons := chain.InitialClient()
	ctx := n.SetupCtx().WithBlockTime(w.TimeOn(n))
	c.Check(n.App.TIBCKeeper.ClientKeeper.CreateClient(ctx, c17Client, cs, cons))
	var rs []string
	for _, r := range w.Relayers {
		rs = append(rs, r.Addr.String())
	}
	n.App.TIBCKeeper.ClientKeeper.RegisterRelayers(ctx, c17Client, rs)
	_, err = w.Block(n, nil, world.NoCrash)
	c.Check(err)

	r := &c17Run{c: c, w: w, n: n, chain: chain, static: cs}
	if what, detail := r.compareState(); what != "" {
		c.Failf("client state right after creation differs from the model: %s: %s", what, detail)
	}

	steps := (45 + ch.Int(45)) * c.Scale
	for i := 0; i < steps; i++ {
		c.Step("c17")
		weights := []int{55, 27, 10, 4, 4}
		if !crashes {
			weights[4] = 0
		}
		// around a pending rotation test the boundary harder
		switch ch.Pick(weights) {
		case 0:
			sub, err := chain.NextValid()
			c.Check(err)
			if sub == nil {
				w.Stats.Inc("probe-nobody-may-seal")
				c.Op("stuck")
				continue
			}
			r.submit(sub, world.NoCrash)
		case 1:
			kinds := chain.Applicable(bsc.FieldKinds)
			// a pending rotation whose new set differs: probe membership more often
			k := kinds[ch.Int(len(kinds))]
			if chain.M.HasPending && ch.Bool(1, 5) {
				k = bsc.KSignerNotInForce
			} else if chain.Prev != nil && chain.Prev.HasPending && !chain.M.HasPending && ch.Bool(1, 3) {
				k = bsc.KSignerNotInForce // right after a rotation: members of the old set
			}
			sub, err := chain.Corrupt(k)
			c.Check(err)
			if sub == nil {
				c.Op("n/a")
				continue
			}
			r.submit(sub, world.NoCrash)
		case 2:
			kinds := chain.Applicable(bsc.SequenceKinds)
			sub, err := chain.Corrupt(kinds[ch.Int(len(kinds))])
			c.Check(err)
			if sub == nil {
				c.Op("n/a")
				continue
			}
			r.submit(sub, world.NoCrash)
		case 3:
			_, err := w.Block(n, nil, world.NoCrash)
			c.Check(err)
			c.Op("idle")
			if r.upAt == 0 && ch.Int(3) == 1 { // (drawn last in the step: recorded runs replay unchanged)
				r.upgrade()
			}
		case 4:
			pt := []world.CrashPoint{world.CrashBeforeFinalize, world.CrashAfterFinalize, world.CrashAfterCommit}[ch.Int(3)]
			if ch.Bool(1, 2) {
				// crash around an empty block
				_, err := w.Block(n, nil, pt)
				c.Check(err)
				r.restart(pt, "empty")
			} else {
				// crash around an update
				var sub *bsc.Submission
				if ch.Bool(2, 3) {
					sub, err = chain.NextValid()
				} else {
					kinds := chain.Applicable(bsc.FieldKinds)
					sub, err = chain.Corrupt(kinds[ch.Int(len(kinds))])
				}
				c.Check(err)
				if sub == nil {
					c.Op("n/a")
					continue
				}
				r.submit(sub, pt)
			}
		}
	}
	c.Nontrivial = r.accepted >= 10 && r.corrupt >= 3
}

func (r *c17Run) restart(pt world.CrashPoint, what string) {
	r.w.Stats.Inc(fmt.Sprintf("crash-%s-%d", what, int(pt)))
	r.c.Check(r.n.Restart())
	r.w.Log.Add("restart after crash point %d (%s)", int(pt), what)
	r.c.Op(fmt.Sprintf("crash%d", int(pt)))
	if what, detail := r.compareState(); what != "" {
		r.c.Violate("C17/state-after-restart/"+what, "after crash point %d and restart: %s", int(pt), detail)
	}
}

// submit sends one header as MsgUpdateClient in its own block and runs the oracles.
func (r *c17Run) submit(sub *bsc.Submission, crash world.CrashPoint) {
	c, w, n, chain := r.c, r.w, r.n, r.chain
	m := chain.M
	h := sub.Header
	number := h.Height.RevisionHeight
	res := m.Check(h)
	nInForce := len(m.InForce)
	latestBefore := m.Number()
	rotBefore, rotChangedBefore := m.Rotations, m.RotationsChanged

	if sub.Kind != "honest" {
		r.corrupt++
		w.Stats.Inc("corrupt-" + sub.Kind)
	}
	w.Stats.Inc("model-" + res.Verdict.String())

	relayer := w.Relayers[c.Ch.Int(len(w.Relayers))]
	msg, err := clienttypes.NewMsgUpdateClient(c17Client, h, relayer.Addr)
	c.Check(err)
	before := n.DumpMap("tibc")
	req := &world.TxReq{Signer: relayer, Msgs: []sdk.Msg{msg}, Label: fmt.Sprintf("update(%s #%d %s)", c17Client, number, sub.Kind)}
	w.Log.Add("submit kind=%s number=%d latest=%d model=%s/%s N=%d diff=%d %s", sub.Kind, number, latestBefore, res.Verdict, res.Reason, nInForce, h.Difficulty, sub.Note)

	rec, err := w.Block(n, []*world.TxReq{req}, crash)
	c.Check(err)
	if crash != world.NoCrash {
		r.w.Stats.Inc(fmt.Sprintf("crash-update-%d", int(crash)))
		c.Check(n.Restart())
		w.Log.Add("restart after crash point %d (update)", int(crash))
		if crash != world.CrashAfterCommit {
			// the block never happened
			c.Op(fmt.Sprintf("%s:lost%d", sub.Kind, int(crash)))
			if d := world.DiffDumps(before, n.DumpMap("tibc")); len(d) > 0 {
				c.Violate("C17/state-after-restart/lost-block-left-trace", "block with update #%d lost by crash point %d but tibc store changed: %s", number, int(crash), diffSummary(d, 4))
			}
			if what, detail := r.compareState(); what != "" {
				c.Violate("C17/state-after-restart/"+what, "after crash point %d and restart: %s", int(crash), detail)
			}
			return
		}
	}
	tx := rec.Results[0]
	ok := tx.OK()
	w.Log.Add("  -> ok=%v code=%d/%s", ok, tx.Code, tx.Space)
	outcome := "rej"
	if ok {
		outcome = "acc"
	}
	c.Op(sub.Kind + ":" + outcome)
	w.Stats.Inc("probe-" + res.Verdict.String() + "-" + outcome)
	r.boundaryProbes(sub, res, number, ok)

	// ---- (a) verdict
	switch {
	case res.Verdict == model.ParliaValid && !ok:
		c.Violate(fmt.Sprintf("C17/rejected-valid/%s/%s-%d%s", sub.Kind, tx.Space, tx.Code, r.after()),
			"header #%d (kind %s, child of latest #%d, signer %s in the set in force of %d, in-turn=%v, difficulty %d, gas limit %d vs parent %d) is valid by the Parlia rules but MsgUpdateClient failed: code %d/%s %s",
			number, sub.Kind, latestBefore, res.Signer.Hex(), nInForce, res.InTurn, h.Difficulty, h.GasLimit, m.Latest.GasLimit, tx.Code, tx.Space, world.Short(tx.Log, 200))
	case res.Verdict == model.ParliaInvalid && ok:
		sig := "C17/accepted-invalid/" + res.Reason
		extra := ""
		if res.Reason == "recent-signer" && number <= uint64(nInForce/2) {
			sig += "/number-le-half-n"
			extra = fmt.Sprintf(" (header number %d <= floor(N/2) = %d)", number, nInForce/2)
		}
		c.Violate(sig+r.after(), "header #%d (kind %s) breaks rule %q but MsgUpdateClient succeeded%s: latest was #%d, set in force has %d members, signer %s, %s",
			number, sub.Kind, res.Reason, extra, latestBefore, nInForce, res.Signer.Hex(), r.recentSummary(res.Signer, number))
	}

	if !ok {
		// ---- (c) no trace
		if d := world.DiffDumps(before, n.DumpMap("tibc")); len(d) > 0 {
			c.Violate("C17/rejected-but-state-changed", "MsgUpdateClient #%d (kind %s) failed (code %d/%s %s) but the tibc store changed: %s",
				number, sub.Kind, tx.Code, tx.Space, world.Short(tx.Log, 80), diffSummary(d, 4))
		}
		if res.Verdict == model.ParliaOpen {
			w.Stats.Inc("probe-open-" + res.Reason + "-rejected")
		}
		return
	}

	// ---- accepted (also when the model said invalid and the finding is known: follow the client)
	chain.Accept(h, res.Signer, res.SignerOK)
	r.accepted++
	if res.Verdict == model.ParliaOpen {
		w.Stats.Inc("probe-open-" + res.Reason + "-accepted")
	}
	if res.Verdict == model.ParliaValid {
		if res.InTurn {
			w.Stats.Inc("accepted-in-turn")
		} else {
			w.Stats.Inc("accepted-out-of-turn")
		}
		if number <= uint64(nInForce/2) {
			w.Stats.Inc("probe-accepted-below-window-height")
		}
	}
	if m.IsEpoch(number) {
		w.Stats.Inc("probe-epoch-block-accepted")
	}
	if m.Rotations > rotBefore {
		w.Stats.Inc("probe-rotation-applied")
		if m.RotationsChanged > rotChangedBefore {
			w.Stats.Inc("probe-rotation-changed-set")
		}
		w.Log.Add("  rotation at #%d: set in force now %d members", number, len(m.InForce))
		w.Stats.Inc("probe-set-size-" + c17SizeBucket(len(m.InForce)))
	}

	// ---- (b) state after acceptance
	if what, detail := r.compareState(); what != "" {
		c.Violate("C17/state-after-accept/"+what+r.after(), "after accepting header #%d (kind %s): %s", number, sub.Kind, detail)
	}
}

// boundaryProbes counts the rare situations that pin down the exact rotation
// height and the exact width of the recency window.
func (r *c17Run) boundaryProbes(sub *bsc.Submission, res model.ParliaResult, number uint64, ok bool) {
	m, w := r.chain.M, r.w // state before the header is applied
	if !res.SignerOK || number != m.Number()+1 {
		return
	}
	acc := "rejected"
	if ok {
		acc = "accepted"
	}
	inPending := false
	for _, a := range m.Pending {
		if a == res.Signer {
			inPending = true
		}
	}
	inForce := m.IsInForce(res.Signer)
	if m.HasPending && number == m.ApplyAt {
		// the last block checked against the old set
		if inForce && !inPending && res.Verdict == model.ParliaValid {
			w.Stats.Inc("probe-old-only-member-seals-apply-height-" + acc)
		}
		if !inForce && inPending && res.Reason == "non-validator" {
			w.Stats.Inc("probe-new-only-member-seals-apply-height-" + acc)
		}
	}
	if p := r.chain.Prev; p != nil && p.HasPending && !m.HasPending && number == p.ApplyAt+1 {
		// the first block checked against the new set
		wasInForce := p.IsInForce(res.Signer)
		if inForce && !wasInForce && res.Verdict == model.ParliaValid {
			w.Stats.Inc("probe-new-only-member-seals-first-block-of-new-set-" + acc)
		}
		if !inForce && wasInForce && res.Reason == "non-validator" {
			w.Stats.Inc("probe-old-only-member-seals-first-block-of-new-set-" + acc)
		}
	}
	if inForce {
		half := uint64(len(m.InForce) / 2)
		var last uint64
		found := false
		for h, s := range m.Signers {
			if s == res.Signer && h < number && (!found || h > last) {
				last, found = h, true
			}
		}
		if found && half > 0 {
			switch number - last {
			case half:
				if res.Reason == "recent-signer" {
					w.Stats.Inc("probe-sealer-of-oldest-block-in-window-" + acc)
				}
			case half + 1:
				if res.Verdict == model.ParliaValid {
					w.Stats.Inc("probe-sealer-of-block-just-outside-window-" + acc)
				}
			case 1:
				if res.Reason == "recent-signer" {
					w.Stats.Inc("probe-sealer-of-previous-block-" + acc)
				}
			}
		}
	}
}

func c17SizeBucket(n int) string {
	switch {
	case n <= 2:
		return fmt.Sprint(n)
	case n <= 7:
		return "3-7"
	case n <= 14:
		return "8-14"
	case n <= 20:
		return "15-20"
	}
	return "21"
}

func (r *c17Run) recentSummary(signer common.Address, number uint64) string {
	m := r.chain.M
	var hs []uint64
	for h, s := range m.Signers {
		if s == signer && h < number && h+uint64(len(m.InForce)/2) >= number {
			hs = append(hs, h)
		}
	}
	sort.Slice(hs, func(i, j int) bool { return hs[i] < hs[j] })
	return fmt.Sprintf("signer sealed heights %v within the preceding floor(N/2) blocks", hs)
}

// compareState compares the committed client and consensus state with the model.
func (r *c17Run) compareState() (string, string) {
	n, m := r.n, r.chain.M
	csI, ok := n.ClientState(c17Client)
	if !ok {
		return "client-missing", "no client state"
	}
	cs, ok := csI.(*bsctypes.ClientState)
	if !ok {
		return "client-type", fmt.Sprintf("client state has type %T", csI)
	}
	want := m.Latest
	wb, _ := proto.Marshal(want)
	gb, _ := proto.Marshal(&cs.Header)
	if cs.Header.Height.RevisionHeight != want.Height.RevisionHeight || cs.GetLatestHeight().GetRevisionHeight() != want.Height.RevisionHeight {
		return "latest-height", fmt.Sprintf("client latest height %s, expected %d", cs.GetLatestHeight(), want.Height.RevisionHeight)
	}
	if !bytes.Equal(wb, gb) {
		return "header", fmt.Sprintf("ClientState.Header (hash %s) is not the accepted header #%d (hash %s)",
			model.ParliaBlockHash(&cs.Header).Hex(), want.Height.RevisionHeight, m.LatestHash.Hex())
	}
	var got []common.Address
	for _, v := range cs.Validators {
		got = append(got, common.BytesToAddress(v))
	}
	got = model.SortedAddrs(got)
	if len(got) != len(cs.Validators) {
		return "validators", fmt.Sprintf("client validator list has duplicates: %d entries, %d distinct", len(cs.Validators), len(got))
	}
	if len(got) != len(m.InForce) {
		return "validators", fmt.Sprintf("client has %d validators at #%d, the set in force has %d (announced at #%d, effective after #%d)", len(got), want.Height.RevisionHeight, len(m.InForce), m.AnnouncedAt, m.ApplyAt)
	}
	for i := range got {
		if got[i] != m.InForce[i] {
			return "validators", fmt.Sprintf("client validator %d is %s at #%d, the set in force has %s (announced at #%d, effective after #%d)", i, got[i].Hex(), want.Height.RevisionHeight, m.InForce[i].Hex(), m.AnnouncedAt, m.ApplyAt)
		}
	}
	s := r.static
	if cs.ChainId != s.ChainId || cs.Epoch != s.Epoch || cs.BlockInteval != s.BlockInteval || cs.TrustingPeriod != s.TrustingPeriod || !bytes.Equal(cs.ContractAddress, s.ContractAddress) {
		return "static-fields", "chain id / epoch / block interval / trusting period / contract address changed"
	}
	consI, ok := n.ConsensusState(c17Client, want.Height)
	if !ok {
		return "consensus-missing", fmt.Sprintf("no consensus state at %s", want.Height)
	}
	cons, ok := consI.(*bsctypes.ConsensusState)
	if !ok {
		return "consensus-type", fmt.Sprintf("consensus state has type %T", consI)
	}
	if !bytes.Equal(cons.Root, want.Root) {
		return "consensus-root", fmt.Sprintf("consensus state at %s has root %x, header root %x", want.Height, cons.Root, want.Root)
	}
	if cons.Timestamp != want.Time {
		return "consensus-timestamp", fmt.Sprintf("consensus state at %s has timestamp %d, header time %d", want.Height, cons.Timestamp, want.Time)
	}
	if cons.Number != want.Height {
		return "consensus-number", fmt.Sprintf("consensus state at %s has number %s", want.Height, cons.Number)
	}
	return "", ""
}
