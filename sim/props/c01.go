package props

import (
	"strings"

	packettypes "github.com/bianjieai/tibc-go/modules/tibc/core/04-packet/types"

	"tibcsim/core"
	"tibcsim/model"
	"tibcsim/scen"
	"tibcsim/world"
)

// C01: inbound packets are authentic.
//
// Oracle (soundness): whenever a MsgRecvPacket produces a recv_packet event on
// chain X, the chain the statement names as the proving chain must hold, in
// the state the proof height refers to, a commitment for (src,dst,seq) whose
// data hash is the submitted data's.  Oracle (no trace): a rejected receive
// leaves the tibc and token stores byte-identical.

var c01Muts = []string{scen.MutData, scen.MutDataEquiv, scen.MutDataEquiv, scen.MutSeq, scen.MutSrc, scen.MutDst, scen.MutTarget, scen.MutProver,
	scen.MutProofBytes, scen.MutProofKey, scen.MutProofHeight, scen.MutSigner}

func init() {
	register(&core.Profile{Name: "c01-byzantine-recv", Property: "C01", Weight: 3, Run: func(c *core.Ctx) { runC01(c, false) },
		Doc: "2-4 chains, NFT/MT traffic on direct and relayed routes, honest relayer plus Byzantine mutations of genuine receive messages"})
	register(&core.Profile{Name: "c01-byzantine-recv-crash", Property: "C01", Weight: 1, Fault: true, Run: func(c *core.Ctx) { runC01(c, true) },
		Doc: "same with crash/restart of chains between steps"})
}

// recvSoundness is the C01 oracle, shared with other properties' runs.
func recvSoundness(c *core.Ctx, e *scen.Engine, s *scen.Sent, n *world.Node, r *world.TxResult) {
	p, _, h, ok := scen.SentPacket(s)
	if !ok {
		return
	}
	if _, isRecv := s.Msg.(*packettypes.MsgRecvPacket); !isRecv {
		return
	}
	// "A relayed message for which no such commitment exists ... is rejected": the
	// verdict is taken from the model first, then compared with the tx result, whatever
	// the tx did (receipt, callback, forward, or merely an error acknowledgement written)
	if !r.OK() {
		// a failed tx carries no events of its msgs; the no-trace check covers the store
		return
	}
	if world.CountEvents(r.Events, packettypes.EventTypeRecvPacket) == 0 {
		c.W.Stats.Inc("probe-recv-ok-without-recv-event")
	}
	prover := scen.ProvingChainForRecv(p, n.Name)
	cm := e.PM.On(prover).LiveCommit(model.KeyOf(p), int64(h.RevisionHeight)-1)
	mut := s.Mut
	if mut == "" {
		mut = "genuine"
	}
	if i := strings.Index(mut, "-"); i > 0 {
		mut = mut[:i]
	}
	if cm == nil {
		c.Violate("C01/recv-accepted/no-commitment/"+mut,
			"%s accepted MsgRecvPacket %s (mutation %q) at proof height %d, but %s holds no commitment for it in the state after block %d",
			n.Name, model.KeyOf(p), s.Mut, h.RevisionHeight, prover, h.RevisionHeight-1)
		return
	}
	if cm.DataHash != sha(p.Data) {
		got := sha(p.Data)
		c.Violate("C01/recv-accepted/other-data/"+mut,
			"%s accepted MsgRecvPacket %s (mutation %q) with data %x… but %s committed data hash %x…",
			n.Name, model.KeyOf(p), s.Mut, got[:6], prover, cm.DataHash[:6])
	}
}

// noTraceOnFailure: a failed tx must leave the compared stores unchanged.
func noTraceOnFailure(c *core.Ctx, sigPrefix string, n *world.Node, r *world.TxResult, before map[string]string, what string) {
	if r.OK() || before == nil {
		return
	}
	after := n.DumpMap(TokenStores...)
	if d := world.DiffDumps(before, after); len(d) > 0 {
		c.Violate(sigPrefix+"/rejected-but-state-changed", "%s on %s failed (code %d %s) but changed: %s", what, n.Name, r.Code, world.Short(r.Log, 80), diffSummary(d, 4))
	}
}

// byzSource picks the genuine message a Byzantine relayer tampers with: mostly
// a freshly built message for a still undelivered item of the given kinds
// (so that tampering meets the verification logic, not the duplicate check),
// sometimes an old logged one.
func byzSource(c *core.Ctx, e *scen.Engine, kinds ...int) *scen.Sent {
	ch := c.Ch
	var pend []*scen.Item
	for _, it := range e.Pending() {
		for _, k := range kinds {
			if it.Kind == k {
				pend = append(pend, it)
			}
		}
	}
	old := genuineSent(e, kinds...)
	if len(pend) > 0 && (len(old) == 0 || ch.Bool(4, 5)) {
		return e.Prepare(pend[ch.Int(len(pend))], e.W.Relayers[ch.Int(2)])
	}
	if len(old) == 0 {
		return nil
	}
	return old[ch.Int(len(old))]
}

func runC01(c *core.Ctx, crashes bool) {
	ch := c.Ch
	nChains := ch.Range(2, 4)
	params := world.DefaultClientParams()
	// clients with a confirmation delay: proofs are usable only some seconds after their height
	// was recorded (honest deliveries are simply retried later)
	params.TimeDelay = []uint64{0, 0, 1_000_000_000, 3_000_000_000}[ch.Int(4)]
	w, e := buildTraffic(c, nChains, params)
	if params.TimeDelay > 0 {
		w.Stats.Inc("clients-with-confirmation-delay")
	}
	e.DumpStores = TokenStores
	// relay chains with restrictive or empty rule sets: the refusal branch of the relay hop
	for _, n := range w.Nodes {
		switch ch.Int(4) {
		case 0:
			c.Check(w.SetRules(n, []string{"*,*,NFT"}))
			w.Stats.Inc("restrictive-rules")
		case 1:
			c.Check(w.SetRules(n, []string{}))
			w.Stats.Inc("empty-rules")
		}
	}
	uni := scen.DefaultUniverse()
	uni.UnknownDestPct = 8
	uni.Amounts = append(uni.Amounts, 200, 300, 70000) // amounts whose encoding leaves ASCII
	e.SeedTokens(uni, 2)

	mutated := 0
	e.OnRelayTx = func(s *scen.Sent, n *world.Node, r *world.TxResult, before map[string]string) {
		recvSoundness(c, e, s, n, r)
		if _, isRecv := s.Msg.(*packettypes.MsgRecvPacket); isRecv {
			noTraceOnFailure(c, "C01", n, r, before, "MsgRecvPacket("+s.Mut+")")
			if s.Mut != "" {
				mutated++
				w.Stats.Inc("byz-" + firstTok(s.Mut))
				if r.OK() {
					w.Stats.Inc("byz-accepted-legit")
				}
			}
		}
	}

	steps := (60 + ch.Int(90)) * c.Scale
	for i := 0; i < steps; i++ {
		c.Step("c01")
		switch ch.Pick([]int{30, 25, 35, 5, 5}) {
		case 0:
			n := w.Nodes[ch.Int(len(w.Nodes))]
			e.RandomUserOp(n, uni)
		case 1:
			if it := pickPending(c, e); it != nil {
				e.Deliver(it, w.Relayers[ch.Int(2)])
			}
		case 2:
			orig := byzSource(c, e, scen.KRecv)
			if orig == nil {
				continue
			}
			m := e.Mutate(orig, c01Muts[ch.Int(len(c01Muts))])
			if m == nil {
				continue
			}
			// a second mutation sometimes
			if ch.Bool(1, 5) {
				if m2 := e.Mutate(m, c01Muts[ch.Int(len(c01Muts))]); m2 != nil {
					m2.Mut = m.Mut + "+" + m2.Mut
					m = m2
				}
			}
			e.Submit(m)
		case 3:
			n := w.Nodes[ch.Int(len(w.Nodes))]
			if !n.Down {
				_, err := w.Block(n, nil, world.NoCrash)
				c.Check(err)
			}
		case 4:
			if crashes {
				n := w.Nodes[ch.Int(len(w.Nodes))]
				if !n.Down {
					pt := []world.CrashPoint{world.CrashBeforeFinalize, world.CrashAfterFinalize, world.CrashAfterCommit}[ch.Int(3)]
					_, err := w.Block(n, nil, pt)
					c.Check(err)
					w.Stats.Inc("crash")
					c.Check(n.Restart())
				}
			} else {
				w.Tick(world.DefaultClientParams().MaxClockDrift / 2)
				w.Stats.Inc("clock-advance")
			}
		}
	}
	c.Nontrivial = mutated >= 3
}
