package props

import (
	"bytes"
	"fmt"
	"math/big"
	"strings"
	"time"

	"github.com/ethereum/go-ethereum/common"
	gethtypes "github.com/ethereum/go-ethereum/core/types"

	sdk "github.com/cosmos/cosmos-sdk/types"

	clienttypes "github.com/bianjieai/tibc-go/modules/tibc/core/02-client/types"
	ethclient "github.com/bianjieai/tibc-go/modules/tibc/light-clients/09-eth/types"

	"tibcsim/core"
	"tibcsim/foreign/eth"
	"tibcsim/world"
)

// C18: the ETH proof-of-work light client accepts exactly the valid children
// of headers it has stored and exposes one parent-linked chain.
//
// Oracles (all stated in foreign/eth.Model, independent of the client code):
//   - verdict equality: every MsgUpdateClient result is compared with the
//     reference model's verdict for the header and the time of the host block
//     that carried it (C18/accepted-invalid/<rule>, C18/rejected-valid/<context>);
//   - single chain: after every accepted header (and after every restart) the
//     consensus states the client exposes for heights start..latest are the
//     headers on the parent-linked chain ending at ClientState.Header
//     (C18/single-chain/<what>);
//   - a refused header leaves the tibc store untouched (C18/rejected-but-state-changed).

const c18ChainName = "eth-chain1"

// weights of eth.PertKinds (same order); the height-revision perturbation is
// rare because an accepted one ends the run.
var c18PertWeights = func() []int {
	w := make([]int, len(eth.PertKinds))
	for i, k := range eth.PertKinds {
		switch k {
		case eth.PertRevision:
			w[i] = 1
		case eth.PertSameRootSister:
			w[i] = 6
		default:
			w[i] = 12
		}
	}
	return w
}()

func init() {
	register(&core.Profile{Name: "c18-eth-tree", Property: "C18", Weight: 350, Run: func(c *core.Ctx) { runC18Tree(c, false) },
		Doc: "one host SimApp chain with an ETH client (seal hook on) fed from a seeded header tree grown from mainnet header 13286181: competing branches interleaved, reorganisations up to depth 8, returns to abandoned branches, field perturbations, duplicates, host clock advances"})
	register(&core.Profile{Name: "c18-eth-tree-crash", Property: "C18", Weight: 150, Fault: true, Run: func(c *core.Ctx) { runC18Tree(c, true) },
		Doc: "same with crash/restart of the host chain before, inside and after update blocks"})
	register(&core.Profile{Name: "c18-eth-mainnet-seal", Property: "C18", Weight: 1, Run: runC18Mainnet,
		Doc: "seal hook OFF: recorded mainnet headers 13286181.. fed in order through the real ethash verification, interleaved with single-bit corruptions of nonce / mix digest and pre-seal perturbations (about 2 s CPU per seal check, hence the tiny weight)"})
}

// ---- wire conversion (harness side; deliberately not the client's own helpers)

func c18ToWire(s *eth.Submission) *ethclient.Header {
	h := s.H
	var number uint64
	if h.Number != nil && h.Number.IsUint64() {
		number = h.Number.Uint64()
	}
	return &ethclient.Header{
		ParentHash: h.ParentHash.Bytes(), UncleHash: h.UncleHash.Bytes(), Coinbase: h.Coinbase.Bytes(),
		Root: h.Root.Bytes(), TxHash: h.TxHash.Bytes(), ReceiptHash: h.ReceiptHash.Bytes(), Bloom: h.Bloom.Bytes(),
		Difficulty: s.DifficultyStr, Height: clienttypes.NewHeight(s.Rev, number),
		GasLimit: h.GasLimit, GasUsed: h.GasUsed, Time: h.Time, Extra: append([]byte(nil), h.Extra...),
		MixDigest: h.MixDigest.Bytes(), Nonce: h.Nonce.Uint64(), BaseFee: s.BaseFeeStr,
	}
}

func c18FromWire(w *ethclient.Header) (*gethtypes.Header, error) {
	d, ok := new(big.Int).SetString(w.Difficulty, 10)
	if !ok {
		return nil, fmt.Errorf("difficulty %q is not a number", w.Difficulty)
	}
	f, ok := new(big.Int).SetString(w.BaseFee, 10)
	if !ok {
		return nil, fmt.Errorf("base fee %q is not a number", w.BaseFee)
	}
	if len(w.Bloom) > gethtypes.BloomByteLength {
		return nil, fmt.Errorf("bloom of %d bytes", len(w.Bloom))
	}
	return &gethtypes.Header{
		ParentHash: common.BytesToHash(w.ParentHash), UncleHash: common.BytesToHash(w.UncleHash),
		Coinbase: common.BytesToAddress(w.Coinbase), Root: common.BytesToHash(w.Root), TxHash: common.BytesToHash(w.TxHash),
		ReceiptHash: common.BytesToHash(w.ReceiptHash), Bloom: gethtypes.BytesToBloom(w.Bloom), Difficulty: d,
		Number: new(big.Int).SetUint64(w.Height.RevisionHeight), GasLimit: w.GasLimit, GasUsed: w.GasUsed, Time: w.Time,
		Extra: w.Extra, MixDigest: common.BytesToHash(w.MixDigest), Nonce: gethtypes.EncodeNonce(w.Nonce), BaseFee: f,
	}, nil
}

// ---- run state

type c18Run struct {
	c     *core.Ctx
	w     *world.World
	n     *world.Node
	chain *eth.Chain
	m     *eth.Model

	tip        common.Hash     // hash of ClientState.Header as last observed
	revHeights map[uint64]bool // numbers at which the client took a header under a non-zero height revision
	stop       bool            // the client's store is damaged by an already reported defect: end the run
	everMain   map[common.Hash]bool
	upgraded   map[common.Hash]bool // headers installed by a governance upgrade
	accepted   int
	forks      int
	refused    int
	forceCtx   string // overrides the rejected-valid context (mainnet profile)
}

func c18Short(h common.Hash) string { return h.Hex()[2:10] }

// c18Log keeps the first line of a tx log (a recovered panic carries a stack trace).
func c18Log(s string, n int) string {
	if i := strings.IndexByte(s, '\n'); i >= 0 {
		s = s[:i]
	}
	return world.Short(s, n)
}

// c18Setup starts the host chain at `base`, creates the ETH client at `initial`
// by keeper call and registers the relayers.
func c18Setup(c *core.Ctx, initial *gethtypes.Header, base time.Time, skipSeal bool) *c18Run {
	// process-global seal hook: set explicitly by every run
	ethclient.VerifSkipSeal = skipSeal
	w, err := world.NewWorld(c.Ch, world.WorldConfig{ChainNames: []string{"chain-aaa"}, Base: base})
	c.Check(err)
	c.W = w
	n := w.Nodes[0]
	r := &c18Run{c: c, w: w, n: n, chain: eth.NewChain(initial), m: eth.NewModel(initial), everMain: map[common.Hash]bool{}, revHeights: map[uint64]bool{}}
	wire := c18ToWire(eth.NewSubmission(initial, "initial"))
	cs := &ethclient.ClientState{
		Header: *wire, ChainId: 1, ContractAddress: bytes.Repeat([]byte{0xc1}, 20),
		TrustingPeriod: 20 * 365 * 24 * 3600, // seconds; nothing expires or is pruned inside a run
		TimeDelay:      0, BlockDelay: 0,
	}
	cons := &ethclient.ConsensusState{Timestamp: initial.Time, Number: clienttypes.NewHeight(0, initial.Number.Uint64()), Root: initial.Root.Bytes()}
	ctx := n.SetupCtx().WithBlockTime(w.TimeOn(n))
	c.Check(n.App.TIBCKeeper.ClientKeeper.CreateClient(ctx, c18ChainName, cs, cons))
	var rs []string
	for _, a := range w.Relayers {
		rs = append(rs, a.Addr.String())
	}
	n.App.TIBCKeeper.ClientKeeper.RegisterRelayers(ctx, c18ChainName, rs)
	_, err = w.Block(n, nil, world.NoCrash)
	c.Check(err)
	r.tip = initial.Hash()
	r.everMain[r.tip] = true
	w.Log.Add("eth client %s created at %d/%s time=%d skipSeal=%v host-base=%d", c18ChainName, initial.Number.Uint64(), c18Short(r.tip), initial.Time, skipSeal, base.Unix())
	r.checkChain("after-create")
	return r
}

// context of a header relative to the chain the client currently follows
func (r *c18Run) context(h *gethtypes.Header) string {
	if r.forceCtx != "" {
		return r.forceCtx
	}
	switch {
	case h.ParentHash == r.tip:
		return "extends-tip"
	case r.m.OnChain(r.tip, h.ParentHash):
		return "fork-sibling" // first header of a new fork off the followed chain
	}
	td := new(big.Int)
	if p, ok := r.m.TD[h.ParentHash]; ok {
		td.Set(p)
	}
	if h.Difficulty != nil {
		td.Add(td, h.Difficulty)
	}
	if t, ok := r.m.TD[r.tip]; ok && td.Cmp(t) > 0 {
		return "fork-switch" // extends a side branch beyond the followed chain's total difficulty
	}
	return "side-branch"
}

// submit sends one header in a real MsgUpdateClient (single-tx block) and applies all oracles.
func (r *c18Run) submit(s *eth.Submission, crash world.CrashPoint) {
	c, w, n := r.c, r.w, r.n
	signer := w.Relayers[c.Ch.Int(len(w.Relayers))]
	msg, err := clienttypes.NewMsgUpdateClient(c18ChainName, c18ToWire(s), signer.Addr)
	c.Check(err)
	hashStr, parentStr, num := "-", c18Short(s.H.ParentHash), uint64(0)
	if s.H.Difficulty != nil && s.H.BaseFee != nil {
		hashStr = c18Short(s.H.Hash())
	}
	if s.H.Number != nil && s.H.Number.IsUint64() {
		num = s.H.Number.Uint64()
	}
	label := fmt.Sprintf("eth-update[%s %d/%s<-%s t=%d]", s.Kind, num, hashStr, parentStr, s.H.Time)
	before := n.DumpMap("tibc")
	rec, err := w.Block(n, []*world.TxReq{{Signer: signer, Msgs: []sdk.Msg{msg}, Label: label}}, crash)
	c.Check(err)
	if crash != world.NoCrash {
		w.Stats.Inc("crash")
		c.Check(n.Restart())
		if crash != world.CrashAfterCommit {
			// the block never happened; the client must be exactly where it was
			w.Log.Add("  update lost in crash (%d); restarted at height %d", crash, n.Height)
			c.Op("crash-lost")
			r.checkChain("after-restart")
			return
		}
	}
	res := rec.Results[0]
	blockTime := n.TimeAt(res.Height)
	verdict, reason := r.m.Judge(s, blockTime)
	ctxName := r.context(s.H)
	sigCtx := ctxName
	if r.upgraded[s.H.ParentHash] {
		sigCtx += "@parent-set-by-upgrade" // the parent is the header a governance upgrade installed
	}
	w.Stats.Inc("submit-" + s.Kind)
	w.Log.Add("  %s -> code=%d model=%s/%s ctx=%s ahead=%ds log=%s", label, res.Code, verdict, reason, ctxName,
		int64(s.H.Time)-blockTime.Unix(), c18Log(res.Log, 120))
	if !res.OK() && (strings.Contains(res.Log, "out of gas") || strings.Contains(res.Log, "unauthorized") || strings.Contains(res.Log, "account sequence")) {
		c.Failf("update failed for a reason outside the client: %s", res.Log)
	}
	if verdict == eth.Unconstrained {
		w.Stats.Inc("unconstrained-" + reason)
	}
	// probes: what kind of valid situation did this header put before the client
	if verdict != eth.Reject && r.forceCtx == "" {
		switch ctxName {
		case "fork-sibling":
			w.Stats.Inc("probe-fork-sibling")
		case "fork-switch":
			w.Stats.Inc("probe-fork-switch")
		case "side-branch":
			w.Stats.Inc("probe-side-branch")
		}
		if ctxName != "extends-tip" {
			if fp, ok := r.m.ForkPoint(r.tip, s.H.ParentHash); ok {
				tipNo := r.m.Stored[r.tip].Number.Uint64()
				if tipNo-fp >= 3 {
					w.Stats.Inc("probe-fork-depth>=3")
				}
				if tipNo-fp >= 6 {
					w.Stats.Inc("probe-fork-depth>=6")
				}
			}
			if r.everMain[s.H.ParentHash] && !r.m.OnChain(r.tip, s.H.ParentHash) {
				w.Stats.Inc("probe-return-to-abandoned")
			}
		}
	}
	c.Op(fmt.Sprintf("%s/%s/%v", s.Kind, ctxName, res.OK()))

	switch {
	case res.OK() && verdict == eth.Reject:
		c.Violate("C18/accepted-invalid/"+reason,
			"client accepted header %d/%s (parent %s, time %d, produced as %q) in host block %d at %s, but the statement demands refusal: %s",
			num, hashStr, parentStr, s.H.Time, s.Kind, res.Height, blockTime.UTC().Format(time.RFC3339Nano), reason)
	case !res.OK() && verdict == eth.Accept:
		c.Violate("C18/rejected-valid/"+sigCtx,
			"client refused valid header %d/%s (parent %s stored, time %d, produced as %q, context %s; client tip %s) in host block %d at %s: %s",
			num, hashStr, parentStr, s.H.Time, s.Kind, ctxName, c18Short(r.tip), res.Height, blockTime.UTC().Format(time.RFC3339Nano), c18Log(res.Log, 300))
	}
	if !res.OK() {
		r.refused++
		if d := world.DiffDumps(before, n.DumpMap("tibc")); len(d) > 0 {
			c.Violate("C18/rejected-but-state-changed", "update with header %d/%s failed (code %d %s) but changed the tibc store: %s",
				num, hashStr, res.Code, c18Log(res.Log, 80), diffSummary(d, 4))
		}
		if crash == world.CrashAfterCommit {
			r.checkChain("after-restart")
		}
		return
	}
	// accepted: the client now has this header
	if s.H.Difficulty == nil || s.H.BaseFee == nil {
		c.Failf("accepted a malformed header and the run was told to continue: cannot track it")
	}
	parent := r.chain.ByHash[s.H.ParentHash]
	if parent != nil {
		sisters := 0
		for _, ch := range parent.Children {
			if r.m.Has(ch.Hash) {
				sisters++
			}
		}
		if sisters > 0 {
			r.forks++
			w.Stats.Inc("fork-created")
		}
	}
	r.m.Record(s.H)
	if parent != nil {
		_, err := r.chain.Insert(s.H, s.Kind)
		c.Check(err)
	}
	r.accepted++
	if s.Rev != 0 {
		// An Ethereum header has no revision: its height is {0, number}.  If the client takes
		// it under another revision, the header must still be exposed at {0, number}.
		r.revHeights[num] = true
		cons, ok := n.ConsensusState(c18ChainName, clienttypes.NewHeight(0, num))
		latest, _ := w.ClientLatest(n, c18ChainName)
		if ec, isEth := cons.(*ethclient.ConsensusState); !ok || !isEth || !bytes.Equal(ec.Root, s.H.Root.Bytes()) || ec.Timestamp != s.H.Time || latest.RevisionNumber != 0 {
			c.Violate("C18/single-chain/nonzero-revision-height",
				"client accepted header %d/%s submitted under height %d-%d: latest height is now %s and the consensus state exposed at 0-%d is %v (present=%v), not this header's",
				num, hashStr, s.Rev, num, latest, num, cons, ok)
			r.stop = true // (known finding) what follows would only show consequences of the hole at 0-number
			return
		}
	}
	r.checkChain("after-accept")
	if crash == world.CrashAfterCommit {
		r.checkChain("after-restart")
	}
}

// checkChain is the single-chain oracle.
func (r *c18Run) checkChain(when string) {
	c, n := r.c, r.n
	qctx := n.QueryCtx() // one read-only view of the committed state for the whole walk
	ck := n.App.TIBCKeeper.ClientKeeper
	csI, ok := ck.GetClientState(qctx, c18ChainName)
	if !ok {
		c.Violate("C18/single-chain/client-state-missing", "%s: no client state for %s", when, c18ChainName)
		return
	}
	cs, ok := csI.(*ethclient.ClientState)
	if !ok {
		c.Failf("client state of %s has type %T", c18ChainName, csI)
	}
	T, err := c18FromWire(&cs.Header)
	if err != nil {
		c.Violate("C18/single-chain/latest-header-malformed", "%s: ClientState.Header cannot be read: %v", when, err)
		return
	}
	th := T.Hash()
	if !r.m.Has(th) {
		c.Violate("C18/single-chain/latest-header-not-stored", "%s: ClientState.Header %d/%s is not a header the client accepted", when, T.Number.Uint64(), c18Short(th))
		return
	}
	rev := cs.Header.Height.RevisionNumber
	prev := r.m.Stored[r.tip]
	if th != r.tip {
		if T.Number.Uint64() < prev.Number.Uint64() {
			r.w.Stats.Inc("probe-latest-height-decreased")
		}
		if r.m.TD[th].Cmp(r.m.TD[r.tip]) < 0 {
			r.w.Stats.Inc("probe-tip-moved-to-lighter-header")
		}
		if !r.m.OnChain(th, r.tip) {
			r.w.Stats.Inc("probe-tip-switched-branch")
		}
	}
	chain, linked := r.m.Ancestry(th, r.m.Start)
	if th != r.tip {
		r.tip = th
		for _, hd := range chain {
			r.everMain[hd.Hash()] = true
		}
	}
	if !linked {
		// only reachable after the client accepted a header whose parent it does not have
		c.Violate("C18/single-chain/broken-parent-link", "%s: the headers the client stored do not link its latest header %d/%s down to its initial height %d",
			when, T.Number.Uint64(), c18Short(th), r.m.Start)
		return
	}
	tipNo := T.Number.Uint64()
	for _, hd := range chain {
		h := hd.Number.Uint64()
		if r.revHeights[h] {
			continue // reported once as C18/single-chain/nonzero-revision-height
		}
		pos := "below-tip"
		if h == tipNo {
			pos = "at-tip"
		}
		consI, ok := ck.GetClientConsensusState(qctx, c18ChainName, clienttypes.NewHeight(0, h))
		if !ok {
			c.Violate("C18/single-chain/consensus-state-missing-"+pos,
				"%s: latest header is %d/%s (revision %d) but no consensus state is exposed at height 0-%d; the chain ending at the latest header has %s there",
				when, tipNo, c18Short(th), rev, h, c18Short(hd.Hash()))
			return
		}
		cons, ok := consI.(*ethclient.ConsensusState)
		if !ok {
			c.Failf("consensus state at %d has type %T", h, consI)
		}
		what := ""
		switch {
		case !bytes.Equal(cons.Root, hd.Root.Bytes()):
			what = "wrong-root"
		case cons.Timestamp != hd.Time:
			what = "wrong-timestamp"
		case cons.Number.RevisionHeight != h || cons.Number.RevisionNumber != 0:
			what = "wrong-number"
		}
		if what != "" {
			other := "an unknown header"
			for _, oh := range r.m.Order {
				o := r.m.Stored[oh]
				if o.Number.Uint64() == h && bytes.Equal(o.Root.Bytes(), cons.Root) && o.Time == cons.Timestamp {
					other = "header " + c18Short(oh)
				}
			}
			c.Violate("C18/single-chain/"+what+"-"+pos,
				"%s: latest header is %d/%s; walking parent links down to height %d gives %s (root %x… time %d) but the exposed consensus state has root %x… time %d number %s, which is %s",
				when, tipNo, c18Short(th), h, c18Short(hd.Hash()), hd.Root[:6], hd.Time, cons.Root[:min(6, len(cons.Root))], cons.Timestamp, cons.Number, other)
			return
		}
	}
}

// ---- node selection

func (r *c18Run) acceptedNodes() []*eth.Node {
	var out []*eth.Node
	for _, nd := range r.chain.Nodes {
		if r.m.Has(nd.Hash) {
			out = append(out, nd)
		}
	}
	return out
}

// frontier: generated, not stored, parent stored.  orphans: parent not stored either.
func (r *c18Run) pending() (frontier, orphans []*eth.Node) {
	for _, nd := range r.chain.Nodes {
		if r.m.Has(nd.Hash) || nd.Parent == nil {
			continue
		}
		if r.m.Has(nd.Parent.Hash) {
			frontier = append(frontier, nd)
		} else {
			orphans = append(orphans, nd)
		}
	}
	return
}

func (r *c18Run) tipNode() *eth.Node {
	if nd := r.chain.ByHash[r.tip]; nd != nil {
		return nd
	}
	return r.chain.Root
}

// ancestor k levels below nd (stops at the root)
func c18Up(nd *eth.Node, k int) *eth.Node {
	for ; k > 0 && nd.Parent != nil; k-- {
		nd = nd.Parent
	}
	return nd
}

func (r *c18Run) newChild(p *eth.Node) *eth.Node {
	h := r.chain.NewChild(r.c.Ch, p)
	r.c.Check(eth.SelfCheck(h, p.H))
	nd, err := r.chain.Insert(h, "honest")
	r.c.Check(err)
	return nd
}

// hostNext estimates the time of the next host block.
func (r *c18Run) hostNext() time.Time { return r.w.TimeOn(r.n).Add(1500 * time.Millisecond) }

// catchUp lets the host clock reach a header's timestamp (most of the time),
// as it would when headers are relayed after they were mined.
func (r *c18Run) catchUp(t uint64) {
	next := r.hostNext().Unix()
	if int64(t) > next && r.c.Ch.Bool(9, 10) {
		r.w.Tick(time.Duration(int64(t)-next+int64(r.c.Ch.Int(3))) * time.Second)
	}
}

func (r *c18Run) submitNode(nd *eth.Node, crash world.CrashPoint) {
	r.catchUp(nd.H.Time)
	kind := nd.Kind
	if r.m.Has(nd.Hash) {
		kind = "duplicate"
	} else if nd.Parent != nil && !r.m.Has(nd.Parent.Hash) {
		kind = "orphan"
	}
	r.submit(eth.NewSubmission(nd.H, kind), crash)
}

// upgrade lets governance move the client one header ahead: MsgUpgradeClient with a valid,
// never submitted child of the header the client follows.  Afterwards that header is one
// the client has: its children are acceptable and its consensus state is exposed.
func (r *c18Run) upgrade() {
	c, w, n := r.c, r.w, r.n
	nd := r.newChild(r.tipNode())
	r.catchUp(nd.H.Time)
	old, found := n.ClientState(c18ChainName)
	if !found {
		return
	}
	cs := *old.(*ethclient.ClientState)
	cs.Header = *c18ToWire(eth.NewSubmission(nd.H, "upgrade"))
	cons := &ethclient.ConsensusState{Timestamp: nd.H.Time, Number: clienttypes.NewHeight(0, nd.H.Number.Uint64()), Root: nd.H.Root.Bytes()}
	ctx := n.SetupCtx().WithBlockTime(w.TimeOn(n))
	c.Check(n.App.TIBCKeeper.ClientKeeper.UpgradeClient(ctx, c18ChainName, &cs, cons))
	_, err := w.Block(n, nil, world.NoCrash)
	c.Check(err)
	r.m.Record(nd.H)
	r.accepted++
	if r.upgraded == nil {
		r.upgraded = map[common.Hash]bool{}
	}
	r.upgraded[nd.Hash] = true
	w.Stats.Inc("client-upgraded-by-governance")
	w.Log.Add("eth client upgraded by governance to %d/%s", nd.H.Number.Uint64(), c18Short(nd.Hash))
	c.Op("upgrade")
	r.checkChain("after-upgrade")
}

func runC18Tree(c *core.Ctx, crashes bool) {
	ch := c.Ch
	hs, err := eth.MainnetHeaders()
	c.Check(err)
	root := eth.CopyHeader(hs[0])
	lowGas := false
	if ch.Bool(1, 8) {
		// the initial header is trusted, not verified: start from a chain whose gas limit sits
		// at the protocol minimum so that the "at least 5000" rule is reachable on its own
		root.GasLimit = uint64(5000 + ch.Int(3))
		root.GasUsed = uint64(ch.Int(int(root.GasLimit) + 1))
		lowGas = true
	}
	base := time.Unix(int64(root.Time)+int64(ch.Range(0, 120)), 0).UTC()
	r := c18Setup(c, root, base, true)
	w, n := r.w, r.n
	if lowGas {
		w.Stats.Inc("root-at-minimum-gas-limit")
	}

	steps := (40 + ch.Int(70)) * c.Scale
	for i := 0; i < steps && !r.stop; i++ {
		c.Step("c18")
		crash := world.NoCrash
		op := ch.Pick([]int{28, 14, 8, 18, 3, 24, 6, 5, 6, 2})
		if op == 8 {
			if !crashes {
				op = 7
			} else {
				crash = []world.CrashPoint{world.CrashBeforeFinalize, world.CrashAfterFinalize, world.CrashAfterCommit}[ch.Int(3)]
				op = ch.Pick([]int{28, 14, 0, 18, 3, 24, 6, 0, 0, 6})
			}
		}
		switch op {
		case 0: // extend the chain the client follows
			r.submitNode(r.newChild(r.tipNode()), crash)
		case 1: // extend some other stored header: side-branch tip or inner node (new fork)
			acc := r.acceptedNodes()
			p := acc[ch.Int(len(acc))]
			if ch.Bool(1, 2) {
				p = c18Up(r.tipNode(), ch.Range(1, 8))
			}
			r.submitNode(r.newChild(p), crash)
		case 2: // grow an unsubmitted branch (1..10 headers) from a stored header up to 8 below the tip
			p := c18Up(r.tipNode(), ch.Range(0, 8))
			if ch.Bool(1, 4) {
				acc := r.acceptedNodes()
				p = acc[ch.Int(len(acc))]
			}
			k := ch.Range(1, 10)
			for j := 0; j < k; j++ {
				p = r.newChild(p)
			}
			w.Stats.Inc("grow-branch")
			w.Log.Add("grow branch of %d up to %s", k, p)
		case 3: // submit the next header of some pending branch
			fr, _ := r.pending()
			if len(fr) == 0 {
				ch.Int(1)
				r.submitNode(r.newChild(r.tipNode()), crash)
			} else {
				r.submitNode(fr[ch.Int(len(fr))], crash)
			}
		case 4: // a header whose parent was never given to the client
			_, or := r.pending()
			if len(or) == 0 {
				ch.Int(1)
				or = []*eth.Node{r.newChild(r.newChild(r.tipNode()))}
			} else {
				or = []*eth.Node{or[ch.Int(len(or))]}
			}
			r.submitNode(or[0], crash)
		case 5: // perturbed child
			p := r.tipNode()
			if ch.Bool(1, 4) {
				acc := r.acceptedNodes()
				p = acc[ch.Int(len(acc))]
			}
			kind := eth.PertKinds[ch.Pick(c18PertWeights)]
			h := r.chain.NewChild(ch, p)
			c.Check(eth.SelfCheck(h, p.H))
			timeKind := kind == eth.PertTimeFuture || kind == eth.PertTimeBoundary
			if !timeKind {
				r.catchUp(h.Time)
			}
			s := r.chain.Perturb(ch, kind, h, p, r.hostNext())
			w.Stats.Inc("pert-" + kind)
			r.submit(s, crash)
		case 6: // a header the client already has (any stored one, the initial header included)
			acc := r.acceptedNodes()
			r.submitNode(acc[ch.Int(len(acc))], crash)
		case 7: // host clock advance
			w.Tick(time.Duration(ch.Range(1, 40)) * time.Second)
			w.Stats.Inc("clock-advance")
			if ch.Int(5) == 1 { // (drawn last in the step: recorded runs replay unchanged)
				r.upgrade()
			}
		case 9: // empty host block (possibly crashing)
			_, err := w.Block(n, nil, crash)
			c.Check(err)
			if crash != world.NoCrash {
				w.Stats.Inc("crash")
				c.Check(n.Restart())
				r.checkChain("after-restart")
			}
		}
	}
	c.Nontrivial = r.accepted >= 8 && r.forks >= 1
}

func runC18Mainnet(c *core.Ctx) {
	ch := c.Ch
	hs, err := eth.MainnetHeaders()
	c.Check(err)
	i0 := ch.Int(len(hs) - 3)
	last := hs[len(hs)-1]
	base := time.Unix(int64(last.Time)+int64(ch.Range(20, 600)), 0).UTC()
	r := c18Setup(c, hs[i0], base, false)
	r.forceCtx = "mainnet"
	r.m.CheckSeal = true
	for _, h := range hs {
		r.m.AddGenuine(h)
	}
	budget := ch.Range(5, 7) // seal computations (2-4 s each)
	used, corrupted, genuine := 0, 0, 0
	for i := i0 + 1; i < len(hs) && used < budget; i++ {
		c.Step("c18-mainnet")
		parent := r.chain.ByHash[hs[i].ParentHash]
		if parent == nil || !r.m.Has(parent.Hash) {
			break // only when a known finding let a genuine header be refused
		}
		// pre-seal perturbation of the genuine header (refused before any seal work)
		if ch.Bool(1, 3) {
			kind := []string{eth.PertBaseFee, eth.PertDifficulty, eth.PertTimeNotAfter, eth.PertGasLimitOut, eth.PertNumber}[ch.Int(5)]
			s := r.chain.Perturb(ch, kind, hs[i], parent, r.hostNext())
			if v, _ := r.m.Judge(s, r.hostNext()); v != eth.Reject {
				used++
			}
			r.w.Stats.Inc("pert-" + kind)
			r.submit(s, world.NoCrash)
		}
		if used+2 <= budget && ch.Bool(2, 3) {
			bad, how := eth.CorruptSeal(ch, hs[i])
			used++
			corrupted++
			r.w.Stats.Inc("pert-seal-" + how)
			r.submit(eth.NewSubmission(bad, "seal-"+how), world.NoCrash)
		}
		if used >= budget {
			break
		}
		used++
		genuine++
		r.submit(eth.NewSubmission(hs[i], "mainnet"), world.NoCrash)
	}
	r.w.Stats.Add("seal-computations", used)
	c.Nontrivial = genuine >= 2 && corrupted >= 1 && r.accepted >= 2
}
