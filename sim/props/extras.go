package props

import (
	"bytes"
	"fmt"

	sdk "github.com/cosmos/cosmos-sdk/types"
	"github.com/ethereum/go-ethereum/common"

	clienttypes "github.com/bianjieai/tibc-go/modules/tibc/core/02-client/types"
	"github.com/bianjieai/tibc-go/modules/tibc/core/exported"
	bscclient "github.com/bianjieai/tibc-go/modules/tibc/light-clients/08-bsc/types"
	ethclient "github.com/bianjieai/tibc-go/modules/tibc/light-clients/09-eth/types"

	"tibcsim/core"
	"tibcsim/foreign/bsc"
	"tibcsim/foreign/eth"
	"tibcsim/world"
)

// Feeds of honest foreign-chain headers into BSC / ETH clients living on an
// ordinary simulated chain (used by C08, C14, C16, C20).

type BscFeed struct {
	Name  string
	Chain *bsc.Chain
	Host  *world.Node
}

// AddBscClient creates a BSC client named `name` on n (set-up) over a fresh
// seeded BSC chain model.  rootFor, when non-nil, supplies the state root of
// every produced header.
func AddBscClient(c *core.Ctx, w *world.World, n *world.Node, name string, trustingPeriod uint64) *BscFeed {
	ch := c.Ch
	epoch := uint64(ch.Range(5, 12))
	maxN := bsc.MaxSizeFor(epoch)
	cfg := bsc.Config{ChainID: 56, Epoch: epoch, Start: epoch * uint64(1000+ch.Int(100000)), InitialSize: ch.Range(1, maxN),
		StartTime: uint64(w.TimeOn(n).Unix()) - 600}
	chain, err := bsc.NewChain(ch, cfg)
	c.Check(err)
	cs, cons := chain.InitialClient()
	if trustingPeriod != 0 {
		cs.TrustingPeriod = trustingPeriod
	}
	ctx := n.SetupCtx().WithBlockTime(w.TimeOn(n))
	c.Check(n.App.TIBCKeeper.ClientKeeper.CreateClient(ctx, name, cs, cons))
	var rs []string
	for _, r := range w.Relayers {
		rs = append(rs, r.Addr.String())
	}
	n.App.TIBCKeeper.ClientKeeper.RegisterRelayers(ctx, name, rs)
	_, err = w.Block(n, nil, world.NoCrash)
	c.Check(err)
	return &BscFeed{Name: name, Chain: chain, Host: n}
}

// Next submits the next valid header (optionally with a chosen state root);
// returns the header and the tx result.
func (f *BscFeed) Next(c *core.Ctx, w *world.World, root []byte) (*bscclient.Header, *world.TxResult) {
	v := f.Chain.PickSigner(f.Chain.M)
	if v == nil {
		return nil, nil
	}
	h := f.Chain.Draft(f.Chain.M, v)
	if root != nil {
		h.Root = append([]byte(nil), root...)
	}
	c.Check(f.Chain.Seal(h, v, f.Chain.Cfg.ChainID))
	res := f.Chain.M.Check(h)
	msg, err := clienttypes.NewMsgUpdateClient(f.Name, h, w.Relayers[0].Addr)
	c.Check(err)
	r, err := w.One(f.Host, &world.TxReq{Signer: w.Relayers[0], Msgs: []sdk.Msg{msg}, Label: fmt.Sprintf("update(%s #%d)", f.Name, h.Height.RevisionHeight)})
	c.Check(err)
	if r.OK() {
		f.Chain.Accept(h, res.Signer, res.SignerOK)
	}
	return h, r
}

type EthFeed struct {
	Name  string
	Chain *eth.Chain
	Host  *world.Node
	Tip   *eth.Node
}

// AddEthClient creates an ETH client on n rooted at the first recorded mainnet
// header; the seal computation is skipped (hook) for the synthetic children.
func AddEthClient(c *core.Ctx, w *world.World, n *world.Node, name string, trustingPeriod uint64) *EthFeed {
	ethclient.VerifSkipSeal = true
	hs, err := eth.MainnetHeaders()
	c.Check(err)
	root := eth.CopyHeader(hs[0])
	chain := eth.NewChain(root)
	wire := c18ToWire(eth.NewSubmission(root, "initial"))
	if trustingPeriod == 0 {
		trustingPeriod = 20 * 365 * 24 * 3600
	}
	cs := &ethclient.ClientState{Header: *wire, ChainId: 1, ContractAddress: bytes.Repeat([]byte{0xc1}, 20), TrustingPeriod: trustingPeriod}
	cons := &ethclient.ConsensusState{Timestamp: root.Time, Number: clienttypes.NewHeight(0, root.Number.Uint64()), Root: root.Root.Bytes()}
	ctx := n.SetupCtx().WithBlockTime(w.TimeOn(n))
	c.Check(n.App.TIBCKeeper.ClientKeeper.CreateClient(ctx, name, cs, cons))
	var rs []string
	for _, r := range w.Relayers {
		rs = append(rs, r.Addr.String())
	}
	n.App.TIBCKeeper.ClientKeeper.RegisterRelayers(ctx, name, rs)
	_, err = w.Block(n, nil, world.NoCrash)
	c.Check(err)
	f := &EthFeed{Name: name, Chain: chain, Host: n}
	for _, l := range chain.Leaves() {
		f.Tip = l
	}
	return f
}

// Next extends the followed branch by one honest header (optionally with a
// chosen state root) and submits it.
func (f *EthFeed) Next(c *core.Ctx, w *world.World, root []byte) (*ethclient.Header, *world.TxResult) {
	h := f.Chain.NewChild(c.Ch, f.Tip)
	if root != nil {
		h.Root = common.BytesToHash(root)
	}
	wire := c18ToWire(eth.NewSubmission(h, "honest"))
	msg, err := clienttypes.NewMsgUpdateClient(f.Name, wire, w.Relayers[0].Addr)
	c.Check(err)
	r, err := w.One(f.Host, &world.TxReq{Signer: w.Relayers[0], Msgs: []sdk.Msg{msg}, Label: fmt.Sprintf("update(%s #%d)", f.Name, h.Number.Uint64())})
	c.Check(err)
	if r.OK() {
		nd, err := f.Chain.Insert(h, "honest")
		c.Check(err)
		f.Tip = nd
	}
	return wire, r
}

func init() {
	// C15: payloads of another client type for create / upgrade requests
	AltClientBuilders = append(AltClientBuilders, func(c *core.Ctx) (exported.ClientState, exported.ConsensusState, string) {
		epoch := uint64(c.Ch.Range(5, 12))
		chain, err := bsc.NewChain(c.Ch, bsc.Config{ChainID: 56, Epoch: epoch, Start: epoch * 1000, InitialSize: 3, StartTime: uint64(world.BaseTime.Unix())})
		c.Check(err)
		cs, cons := chain.InitialClient()
		return cs, cons, "008-bsc"
	})
	// C16: the exported chain also carries a BSC and an ETH client with history
	ExtraClientSetups = append(ExtraClientSetups, func(c *core.Ctx, w *world.World, n *world.Node) {
		b := AddBscClient(c, w, n, "bsc-chain1", 0)
		e := AddEthClient(c, w, n, "eth-chain1", 0)
		k := 3 + c.Ch.Int(12)
		for i := 0; i < k; i++ {
			b.Next(c, w, nil)
			e.Next(c, w, nil)
		}
		w.Stats.Inc("foreign-clients-added")
	})
}

// setTrustingPeriod changes the trusting period (seconds) of a BSC / ETH client state.
func setTrustingPeriod(cs interface{}, tp uint64) error {
	switch x := cs.(type) {
	case *bscclient.ClientState:
		x.TrustingPeriod = tp
	case *ethclient.ClientState:
		x.TrustingPeriod = tp
	default:
		return fmt.Errorf("client type %T has no second-granularity trusting period", cs)
	}
	return nil
}
