package props

import (
	"fmt"
	"strings"
	"time"

	sdk "github.com/cosmos/cosmos-sdk/types"

	clienttypes "github.com/bianjieai/tibc-go/modules/tibc/core/02-client/types"
	commitmenttypes "github.com/bianjieai/tibc-go/modules/tibc/core/23-commitment/types"
	routingtypes "github.com/bianjieai/tibc-go/modules/tibc/core/26-routing/types"
	"github.com/bianjieai/tibc-go/modules/tibc/core/exported"
	tmclient "github.com/bianjieai/tibc-go/modules/tibc/light-clients/07-tendermint/types"

	"tibcsim/core"
	"tibcsim/world"
)

// C15: privileged operations need the right authority and never clobber clients.
//
// AuthModel: CreateClient / UpgradeClient / RegisterRelayer / SetRoutingRules
// take effect iff requested by the governance authority (a passed proposal);
// UpdateClient iff signed by a relayer registered for that chain name.  A
// refused request changes nothing.  CreateClient never overwrites; UpgradeClient
// never changes the client type.

func init() {
	register(&core.Profile{Name: "c15-privileged-ops", Property: "C15", Weight: 1, Run: runC15,
		Doc: "2 chains; every privileged Msg x signer class (governance proposal, authority named but signed by another key, account naming itself, registered relayer of this / another chain, unregistered account) x payloads (new / existing chain name, same / other client type) in random registry states, interleaved with honest client updates"})
	// other-client-type payloads are provided by alternative client state builders
}

// AltClientBuilders lets other files (light-client models) contribute client /
// consensus states of a non-Tendermint type for the "upgrade to another type"
// and "create" payloads.
var AltClientBuilders []func(c *core.Ctx) (exported.ClientState, exported.ConsensusState, string)

type c15Env struct {
	c *core.Ctx
	w *world.World
	a *world.Node // chain under test
	b *world.Node // counterparty
	// model
	clients  map[string]string   // chain name -> client type
	relayers map[string][]string // chain name -> registered relayers
	rules    []string
	requests int
	refused  int
	effected int
}

func (v *c15Env) observeRegistry() (map[string]string, map[string][]string, []string) {
	ctx := v.a.QueryCtx()
	ck := v.a.App.TIBCKeeper.ClientKeeper
	clients := map[string]string{}
	for _, ic := range ck.GetAllGenesisClients(ctx) {
		cs, _ := clienttypes.UnpackClientState(ic.ClientState)
		if cs != nil {
			clients[ic.ChainName] = cs.ClientType()
		}
	}
	rel := map[string][]string{}
	for _, ir := range ck.GetAllRelayers(ctx) {
		rel[ir.ChainName] = ir.Relayers
	}
	rules, _ := v.a.App.TIBCKeeper.RoutingKeeper.GetRoutingRules(ctx)
	return clients, rel, rules
}

func (v *c15Env) tmStates(latest int64) (*tmclient.ClientState, *tmclient.ConsensusState) {
	cons, err := v.b.ConsensusStateAt(latest)
	v.c.Check(err)
	p := world.DefaultClientParams()
	cs := tmclient.NewClientState(v.b.Name, p.TrustLevel, p.TrustingPeriod, p.Unbonding, p.MaxClockDrift,
		clienttypes.NewHeight(world.Revision(v.b.Name), uint64(latest)), commitmenttypes.GetSDKSpecs(), world.TibcPrefix, 0)
	return cs, cons
}

// signer classes
const (
	sigGov       = iota // real governance proposal
	sigForgedGov        // msg names the gov authority, tx signed by a user key
	sigSelf             // msg names the signing user as authority
)

// submitPrivileged sends msg under a signer class and reports whether its
// effect was applied (by the gov proposal status, resp. tx result).
func (v *c15Env) submitPrivileged(class int, mk func(authority string) sdk.Msg, label string) (applied bool, detail string) {
	w, a := v.w, v.a
	user := w.Users[1+v.c.Ch.Int(len(w.Users)-1)]
	switch class {
	case sigGov:
		g, err := w.GovExec(a, []sdk.Msg{mk(world.GovAuthority())}, label)
		v.c.Check(err)
		return g.SubmitCode == 0 && g.Executed(), fmt.Sprintf("gov submit=%d status=%v %s", g.SubmitCode, g.Status, world.Short(g.FailReason, 80))
	case sigForgedGov:
		r, err := w.One(a, &world.TxReq{Signer: user, Msgs: []sdk.Msg{mk(world.GovAuthority())}, Label: label + "/forged-gov"})
		v.c.Check(err)
		return r.OK(), fmt.Sprintf("code=%d %s", r.Code, world.Short(r.Log, 80))
	default:
		r, err := w.One(a, &world.TxReq{Signer: user, Msgs: []sdk.Msg{mk(user.Addr.String())}, Label: label + "/self"})
		v.c.Check(err)
		return r.OK(), fmt.Sprintf("code=%d %s", r.Code, world.Short(r.Log, 80))
	}
}

func runC15(c *core.Ctx) {
	ch := c.Ch
	w, err := world.NewWorld(c.Ch, world.WorldConfig{ChainNames: []string{"chain-aaa", "chain-bbb"}})
	c.Check(err)
	c.W = w
	params := world.DefaultClientParams()
	if ch.Bool(1, 2) { // short trusting period: clients expire during the run ("any state of the registry")
		params.TrustingPeriod, params.Unbonding = 15*time.Minute, 30*time.Minute
		w.Stats.Inc("short-trusting-period")
	}
	c.Check(w.ConnectAll(params))
	a, b := w.Nodes[0], w.Nodes[1]
	v := &c15Env{c: c, w: w, a: a, b: b}
	v.clients, v.relayers, v.rules = v.observeRegistry()
	names := []string{"chain-bbb", "chain-new1", "chain-new2", "chain-aaa"}
	classNames := []string{"gov", "forged-gov", "self"}

	expectSame := func(what string, before map[string]string) {
		after := a.DumpMap("tibc")
		if d := world.DiffDumps(before, after); len(d) > 0 {
			c.Violate("C15/refused-but-state-changed/"+what, "refused %s changed the tibc store: %s", what, diffSummary(d, 4))
		}
	}

	steps := 14 + ch.Int(14)
	for i := 0; i < steps; i++ {
		c.Step("c15")
		// keep b moving so that fresh headers exist
		_, err := w.Block(b, nil, world.NoCrash)
		c.Check(err)
		class := ch.Pick([]int{3, 3, 4})
		before := a.DumpMap("tibc")
		v.requests++
		switch ch.Pick([]int{3, 3, 3, 3, 5}) {
		case 0: // CreateClient
			name := names[ch.Int(len(names))]
			cs, cons := v.tmStates(b.Height)
			_, existed := v.clients[name]
			var oldCS exported.ClientState
			if existed {
				oldCS, _ = a.ClientState(name)
			}
			applied, det := v.submitPrivileged(class, func(auth string) sdk.Msg {
				m, err := clienttypes.NewMsgCreateClient(name, cs, cons, auth)
				c.Check(err)
				m.ChainName, m.Title, m.Description = name, "t", "d"
				return m
			}, "create("+name+")")
			w.Log.Add("create %s class=%s existed=%v applied=%v %s", name, classNames[class], existed, applied, det)
			c.Op(fmt.Sprintf("create/%s/existed=%v:%v", classNames[class], existed, applied))
			should := class == sigGov && !existed
			got, has := a.ClientState(name)
			switch {
			case applied && class != sigGov:
				c.Violate("C15/create-client/unauthorised-accepted/"+classNames[class], "MsgCreateClient(%s) by a non-authority (%s) was executed", name, classNames[class])
			case applied && existed:
				c.Violate("C15/create-client/overwrote-existing", "MsgCreateClient(%s) executed although a client exists", name)
			case should && !applied:
				c.Violate("C15/create-client/authority-refused", "governance MsgCreateClient(%s) for a new name was not executed: %s", name, det)
			}
			if existed && (!has || got.GetLatestHeight().String() != oldCS.GetLatestHeight().String() || got.ClientType() != oldCS.ClientType()) {
				c.Violate("C15/create-client/existing-client-changed", "client %s changed by a create request (class %s)", name, classNames[class])
			}
			if !applied && class != sigGov {
				expectSame("create-client", before)
				v.refused++
			}
			if applied {
				v.effected++
			}
		case 1: // UpgradeClient
			name := names[ch.Int(2)] // existing or not
			cs, cons := v.tmStates(b.Height)
			other := false
			var csX exported.ClientState = cs
			var consX exported.ConsensusState = cons
			if len(AltClientBuilders) > 0 && ch.Bool(1, 2) {
				x, y, _ := AltClientBuilders[ch.Int(len(AltClientBuilders))](c)
				w.Stats.Inc("probe-upgrade-to-other-client-type")
				csX, consX, other = x, y, true
				switch ch.Int(4) { // mixed pairs: only one half of the payload is of the other kind
				case 2:
					consX = cons
					w.Stats.Inc("probe-upgrade-mixed-foreign-client-state")
				case 3:
					csX = cs
					w.Stats.Inc("probe-upgrade-mixed-foreign-consensus-state")
				}
			}
			oldType, existed := v.clients[name]
			applied, det := v.submitPrivileged(class, func(auth string) sdk.Msg {
				anyCS, err := clienttypes.PackClientState(csX)
				c.Check(err)
				anyCons, err := clienttypes.PackConsensusState(consX)
				c.Check(err)
				return &clienttypes.MsgUpgradeClient{Title: "t", Description: "d", ChainName: name, ClientState: anyCS, ConsensusState: anyCons, Authority: auth}
			}, "upgrade("+name+")")
			w.Log.Add("upgrade %s class=%s other-type=%v applied=%v %s", name, classNames[class], other, applied, det)
			c.Op(fmt.Sprintf("upgrade/%s/other=%v:%v", classNames[class], other, applied))
			if applied && class != sigGov {
				c.Violate("C15/upgrade-client/unauthorised-accepted/"+classNames[class], "MsgUpgradeClient(%s) by a non-authority (%s) was executed", name, classNames[class])
			}
			if existed {
				now, _ := a.ClientState(name)
				if now == nil || now.ClientType() != oldType {
					c.Violate("C15/upgrade-client/type-changed", "client %s changed type %s -> %v after an upgrade request", name, oldType, now)
				}
			} else if _, has := a.ClientState(name); has && class != sigGov {
				c.Violate("C15/upgrade-client/created-by-non-authority", "upgrade request created client %s", name)
			}
			if class == sigGov && existed && !other && !applied {
				c.Violate("C15/upgrade-client/authority-refused", "governance MsgUpgradeClient(%s) with the same client type was not executed: %s", name, det)
			}
			if !applied && class != sigGov {
				expectSame("upgrade-client", before)
				v.refused++
			}
			if applied {
				v.effected++
			}
		case 2: // RegisterRelayer
			name := names[ch.Int(len(names))]
			rs := []string{w.Users[ch.Int(len(w.Users))].Addr.String()}
			if ch.Bool(1, 2) {
				rs = append(rs, w.Relayers[ch.Int(2)].Addr.String())
			}
			applied, det := v.submitPrivileged(class, func(auth string) sdk.Msg {
				return &clienttypes.MsgRegisterRelayer{Title: "t", Description: "d", ChainName: name, Relayers: rs, Authority: auth}
			}, "register("+name+")")
			w.Log.Add("register %s %d relayers class=%s applied=%v %s", name, len(rs), classNames[class], applied, det)
			c.Op(fmt.Sprintf("register/%s:%v", classNames[class], applied))
			_, relNow, _ := v.observeRegistry()
			if applied && class != sigGov {
				c.Violate("C15/register-relayer/unauthorised-accepted/"+classNames[class], "MsgRegisterRelayer(%s) by a non-authority (%s) was executed", name, classNames[class])
			}
			if class == sigGov && !applied {
				c.Violate("C15/register-relayer/authority-refused", "governance MsgRegisterRelayer(%s) was not executed: %s", name, det)
			}
			if applied && strings.Join(relNow[name], ",") != strings.Join(rs, ",") {
				c.Violate("C15/register-relayer/wrong-effect", "registered %v for %s but the registry holds %v", rs, name, relNow[name])
			}
			if !applied && strings.Join(relNow[name], ",") != strings.Join(v.relayers[name], ",") {
				c.Violate("C15/register-relayer/refused-but-changed", "refused registration changed relayers of %s", name)
			}
			if !applied && class != sigGov {
				expectSame("register-relayer", before)
				v.refused++
			}
			if applied {
				v.effected++
			}
		case 3: // SetRoutingRules
			rules := []string{[]string{"*,*,*", "chain-aaa,chain-bbb,NFT", "*,chain-bbb,*"}[ch.Int(3)]}
			applied, det := v.submitPrivileged(class, func(auth string) sdk.Msg {
				return &routingtypes.MsgSetRoutingRules{Title: "t", Description: "d", Rules: rules, Authority: auth}
			}, "rules")
			w.Log.Add("rules %v class=%s applied=%v %s", rules, classNames[class], applied, det)
			c.Op(fmt.Sprintf("rules/%s:%v", classNames[class], applied))
			_, _, now := v.observeRegistry()
			if applied && class != sigGov {
				c.Violate("C15/set-rules/unauthorised-accepted/"+classNames[class], "MsgSetRoutingRules by a non-authority (%s) was executed", classNames[class])
			}
			if class == sigGov && !applied {
				c.Violate("C15/set-rules/authority-refused", "governance MsgSetRoutingRules(%v) was not executed: %s", rules, det)
			}
			if !applied && strings.Join(now, "|") != strings.Join(v.rules, "|") {
				c.Violate("C15/set-rules/refused-but-changed", "refused rules request changed the stored rules")
			}
			if !applied && class != sigGov {
				expectSame("set-rules", before)
				v.refused++
			}
			if applied {
				v.effected++
			}
		case 4: // UpdateClient by different signers
			name := "chain-bbb"
			if _, ok := v.clients["chain-new1"]; ok && ch.Bool(1, 3) {
				name = "chain-new1"
			}
			latest, ok := w.ClientLatest(a, name)
			if !ok || int64(latest.RevisionHeight) >= b.Height {
				continue
			}
			hdr, err := b.UpdateHeader(b.Height, latest)
			c.Check(err)
			var signer *world.Account
			who := ch.Int(3)
			switch who {
			case 0:
				signer = w.Relayers[ch.Int(2)]
			case 1:
				signer = w.Users[ch.Int(len(w.Users))]
			default:
				signer = w.Users[len(w.Users)-1]
			}
			registered := false
			for _, r := range v.relayers[name] {
				if r == signer.Addr.String() {
					registered = true
				}
			}
			msg, err := clienttypes.NewMsgUpdateClient(name, hdr, signer.Addr)
			c.Check(err)
			r, err := w.One(a, &world.TxReq{Signer: signer, Msgs: []sdk.Msg{msg}, Label: "update(" + name + ") by " + signer.Name})
			c.Check(err)
			c.Op(fmt.Sprintf("update/registered=%v:%d", registered, r.Code))
			if r.OK() && !registered {
				c.Violate("C15/update-client/unregistered-accepted", "MsgUpdateClient(%s) signed by %s, not registered for that chain, was executed", name, signer.Name)
			}
			if !r.OK() && registered && a.ClientStatus(name) == exported.Active {
				c.Violate("C15/update-client/registered-refused", "honest MsgUpdateClient(%s) by registered relayer %s refused: %s", name, signer.Name, world.Short(r.Log, 120))
			}
			if !r.OK() {
				expectSame("update-client", before)
				v.refused++
			} else {
				v.effected++
			}
		}
		v.clients, v.relayers, v.rules = v.observeRegistry()
		w.Tick(time.Duration(ch.Int(20)) * time.Second)
		if ch.Bool(1, 8) { // nobody relays for a while: clients with a short trusting period expire
			w.Tick(20 * time.Minute)
			w.Stats.Inc("clock-jump-20m")
			if a.ClientStatus("chain-bbb") == exported.Expired {
				w.Stats.Inc("probe-client-expired")
			}
		}
	}
	w.Stats.Add("privileged-requests", v.requests)
	w.Stats.Add("refused", v.refused)
	w.Stats.Add("effected", v.effected)
	c.Nontrivial = v.refused >= 2 && v.effected >= 1
}
