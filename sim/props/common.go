// Package props holds one file per property: the simulated scenario
// families (profiles) and the oracles that decide the property.
package props

import (
	"crypto/sha256"
	"fmt"
	"sort"
	"strings"

	"tibcsim/core"
	"tibcsim/scen"
	"tibcsim/world"
)

var registry = map[string][]*core.Profile{}

func register(p *core.Profile) {
	if p.Weight == 0 {
		p.Weight = 1
	}
	registry[p.Property] = append(registry[p.Property], p)
}

// Profiles returns the profiles of a property.
func Profiles(prop string) []*core.Profile { return registry[prop] }

// ProfilesFor returns the profiles of a property that run in the given tier.
func ProfilesFor(prop, tier string) []*core.Profile {
	var out []*core.Profile
	for _, p := range registry[prop] {
		if p.ThoroughOnly && tier != "thorough" {
			continue
		}
		out = append(out, p)
	}
	return out
}

// registerDeep registers a thorough-tier variant of a profile whose runs are
// `scale` times as long (same scenario code, same oracles).
func registerDeep(base string, scale int) {
	b := Find(base)
	if b == nil {
		panic("registerDeep: no profile " + base)
	}
	d := *b
	d.Name = base + "-deep"
	d.Weight = 1
	d.ThoroughOnly = true
	d.Scale = scale
	d.Doc = fmt.Sprintf("%s, with runs %d times as long (thorough tier only)", base, scale)
	register(&d)
}

func Find(name string) *core.Profile {
	for _, ps := range registry {
		for _, p := range ps {
			if p.Name == name {
				return p
			}
		}
	}
	return nil
}

func Properties() []string {
	var out []string
	for k := range registry {
		out = append(out, k)
	}
	sort.Strings(out)
	return out
}

// TokenStores are the five stores the no-trace oracles compare.
var TokenStores = []string{"tibc", "NFT", "MT", "nft", "mt"}

var chainNames = []string{"chain-aaa", "chain-bbb", "chain-ccc", "chain-ddd"}

// buildTraffic starts nChains SimApp chains with a full mesh of Tendermint
// clients and permissive routing rules, and an engine on top.
func buildTraffic(c *core.Ctx, nChains int, params world.ClientParams) (*world.World, *scen.Engine) {
	w, err := world.NewWorld(c.Ch, world.WorldConfig{ChainNames: chainNames[:nChains]})
	c.Check(err)
	c.W = w
	c.Check(w.ConnectAll(params))
	for _, n := range w.Nodes {
		c.Check(w.SetRules(n, []string{"*,*,*"}))
	}
	for _, n := range w.Nodes {
		_, err := w.Block(n, nil, world.NoCrash)
		c.Check(err)
	}
	e := scen.NewEngine(c, w)
	return w, e
}

func sha(b []byte) [32]byte { return sha256.Sum256(b) }

// diffSummary renders up to k differing keys for a violation message.
func diffSummary(keys []string, k int) string {
	var out []string
	for i, s := range keys {
		if i >= k {
			out = append(out, fmt.Sprintf("… %d more", len(keys)-k))
			break
		}
		out = append(out, world.Short(s, 80))
	}
	return strings.Join(out, "; ")
}

// pickPending draws a pending item, biased to older ones.
func pickPending(c *core.Ctx, e *scen.Engine) *scen.Item {
	p := e.Pending()
	if len(p) == 0 {
		c.Ch.Int(1)
		return nil
	}
	return p[c.Ch.Int(len(p))]
}

// genuineSent lists logged genuine messages (no mutation) that carry a proof.
func genuineSent(e *scen.Engine, kinds ...int) []*scen.Sent {
	var out []*scen.Sent
	for _, s := range e.Sent {
		if s.Item == nil || s.Mut != "" {
			continue
		}
		for _, k := range kinds {
			if s.Item.Kind == k {
				out = append(out, s)
			}
		}
	}
	return out
}
