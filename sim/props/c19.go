package props

import (
	"fmt"
	"strings"

	sdk "github.com/cosmos/cosmos-sdk/types"

	packettypes "github.com/bianjieai/tibc-go/modules/tibc/core/04-packet/types"
	host "github.com/bianjieai/tibc-go/modules/tibc/core/24-host"

	"tibcsim/core"
	"tibcsim/model"
	"tibcsim/scen"
	"tibcsim/world"
)

// C19: failed messages leave no trace; error acknowledgements leave no token effects.

var c19Muts = []string{scen.MutData, scen.MutSeq, scen.MutSrc, scen.MutDst, scen.MutTarget, scen.MutProver, scen.MutProofBytes,
	scen.MutProofKey, scen.MutProofHeight, scen.MutAckBytes, scen.MutPort}

func init() {
	register(&core.Profile{Name: "c19-failures", Property: "C19", Weight: 3, Run: func(c *core.Ctx) { runC19(c, false) },
		Doc: "2-3 chains, single-tx blocks; every message kind made to fail at every stage (stateless validation, ante, unknown client, bad proof, duplicate, clean point, unauthorised relay, unknown route, application callback) plus receives answered with error acks; full KV dump of tibc/NFT/MT/nft/mt before and after"})
	register(&core.Profile{Name: "c19-failures-crash", Property: "C19", Weight: 1, Fault: true, Run: func(c *core.Ctx) { runC19(c, true) },
		Doc: "same, plus crashes between FinalizeBlock and Commit: nothing of the lost block may survive the restart"})
}

func tokenView(n *world.Node) string {
	var sb strings.Builder
	ns, _ := n.NFTSnapshot()
	for _, t := range ns {
		fmt.Fprintf(&sb, "nft %s/%s=%s\n", t.Class, t.ID, t.Owner)
	}
	bs, ss := n.MTSnapshot()
	for _, b := range bs {
		if b.Amount != 0 {
			fmt.Fprintf(&sb, "mtbal %s %s/%s=%d\n", b.Owner, b.Class, b.ID, b.Amount)
		}
	}
	for _, s := range ss {
		if s.Supply != 0 {
			fmt.Fprintf(&sb, "mtsup %s/%s=%d\n", s.Class, s.ID, s.Supply)
		}
	}
	return sb.String()
}

func runC19(c *core.Ctx, crashes bool) {
	ch := c.Ch
	nChains := ch.Range(2, 3)
	w, e := buildTraffic(c, nChains, world.DefaultClientParams())
	for _, n := range w.Nodes {
		if ch.Bool(1, 3) {
			c.Check(w.SetRules(n, []string{"*,*,NFT"}))
		}
	}
	e.DumpStores = TokenStores
	uni := scen.DefaultUniverse()
	uni.BadReceiverPct = 35
	uni.UnknownDestPct = 8 // relay chains refusing for lack of a client of the destination
	e.SeedTokens(uni, 3)
	failed, errAcked := 0, 0
	views := map[string]string{}
	snap := func(n *world.Node) { views[n.Name] = tokenView(n) }

	e.OnUserTx = func(a *scen.UserAct, n *world.Node, r *world.TxResult, before map[string]string) {
		if !r.OK() {
			failed++
			noTraceOnFailure(c, "C19/"+strings.SplitN(a.Kind, "-", 2)[0], n, r, before, a.Kind)
		}
	}
	e.OnRelayTx = func(s *scen.Sent, n *world.Node, r *world.TxResult, before map[string]string) {
		kind := "update"
		if s.Item != nil {
			kind = []string{"recv", "ack", "recv-clean"}[s.Item.Kind]
		}
		if !r.OK() {
			failed++
			noTraceOnFailure(c, "C19/"+kind, n, r, before, kind+"("+s.Mut+")")
			return
		}
		if kind != "recv" {
			return
		}
		// a receive that was answered with an error ack: by the destination application, or by
		// a relay chain refusing the packet (unauthorised route, unknown destination)
		for _, ev := range world.ParsePacketEvents(r.Events) {
			if ev.Type != packettypes.EventTypeWriteAck || (ev.Packet.DestinationChain != n.Name && ev.Packet.RelayChain != n.Name) {
				continue
			}
			if ev.Packet.RelayChain == n.Name {
				w.Stats.Inc("probe-error-ack-by-relay")
			}
			if succ, ok := IsSuccessAck(ev.Ack); !ok || succ {
				continue
			}
			errAcked++
			w.Stats.Inc("probe-error-acked-receive")
			// token state: ownership, balances, supplies unchanged
			if now := tokenView(n); now != views[n.Name] {
				c.Violate("C19/error-ack-token-effects/"+ev.Packet.Port, "%s answered %s with an error acknowledgement but its token state changed:\nbefore:\n%s\nafter:\n%s", n.Name, model.KeyOf(ev.Packet), views[n.Name], now)
			}
			// packet layer: exactly receipt + acknowledgement (+ max-ack bookkeeping)
			k := model.KeyOf(ev.Packet)
			allowed := map[string]bool{
				"tibc|" + string(host.PacketReceiptKey(k.Src, k.Dst, k.Seq)):         true,
				"tibc|" + string(host.PacketAcknowledgementKey(k.Src, k.Dst, k.Seq)): true,
				"tibc|" + string(host.MaxAckSeqKey(k.Src, k.Dst)):                    true,
			}
			b2 := map[string]string{}
			for kk, v := range before {
				if strings.HasPrefix(kk, "tibc|") {
					b2[kk] = v
				}
			}
			for _, d := range world.DiffDumps(b2, n.DumpMap("tibc")) {
				if !allowed[d] {
					c.Violate("C19/error-ack-packet-layer-extra", "%s: error-acked receive of %s also changed %s", n.Name, k, world.Short(d, 100))
				}
			}
			for _, must := range []string{"tibc|" + string(host.PacketReceiptKey(k.Src, k.Dst, k.Seq)), "tibc|" + string(host.PacketAcknowledgementKey(k.Src, k.Dst, k.Seq))} {
				if _, ok := n.DumpMap("tibc")[must]; !ok {
					c.Violate("C19/error-ack-packet-layer-missing", "%s: error-acked receive of %s did not record %s", n.Name, k, world.Short(must, 100))
				}
			}
		}
	}

	steps := (70 + ch.Int(90)) * c.Scale
	for i := 0; i < steps; i++ {
		c.Step("c19")
		for _, n := range w.Nodes {
			if !n.Down {
				snap(n)
			}
		}
		switch ch.Pick([]int{25, 25, 30, 8, 6, 6}) {
		case 0:
			e.RandomUserOp(w.Nodes[ch.Int(len(w.Nodes))], uni)
		case 1:
			if it := pickPending(c, e); it != nil {
				e.Deliver(it, w.Relayers[ch.Int(2)])
			}
		case 2:
			orig := byzSource(c, e, scen.KRecv, scen.KAck, scen.KClean)
			if orig == nil {
				continue
			}
			if ch.Bool(1, 5) {
				d := scen.CloneSent(orig)
				d.Mut = "replay"
				e.Submit(d)
				continue
			}
			if m := e.Mutate(orig, c19Muts[ch.Int(len(c19Muts))]); m != nil {
				e.Submit(m)
			}
		case 3:
			userClean(c, e, w.Nodes[ch.Int(len(w.Nodes))])
		case 4: // deliberately failing transfers
			n := w.Nodes[ch.Int(len(w.Nodes))]
			u := w.Users[ch.Int(len(w.Users))]
			switch ch.Int(4) {
			case 0:
				e.NftTransfer(n, u, "nosuchclass", "aaa", u.Addr.String(), "chain-zzz9", "")
			case 1:
				e.MtTransfer(n, u, "00", "00", 5, u.Addr.String(), w.Nodes[(ch.Int(len(w.Nodes)))].Name, "")
			case 2:
				e.CleanPacket(n, u, "chain-zzz9", "", 1)
			default:
				// unregistered account tries to update a client
				var other *world.Node
				for _, o := range w.Nodes {
					if o != n {
						other = o
					}
				}
				if other.Down {
					continue
				}
				if msg, err := w.MsgUpdate(n, other, other.Height, u); err == nil {
					s := &scen.Sent{Target: n.Name, Msg: msg, Prover: other.Name, Signer: u, Mut: "unregistered"}
					e.Exec(n, &world.TxReq{Signer: u, Msgs: []sdk.Msg{msg}, Meta: s, Label: "update by user"})
				}
			}
		case 5:
			if crashes {
				n := w.Nodes[ch.Int(len(w.Nodes))]
				if n.Down {
					continue
				}
				before := n.DumpMap(TokenStores...)
				// a block with a real, valid tx that is lost in the crash
				var reqs []*world.TxReq
				if it := pickPending(c, e); it != nil && it.Target == n.Name {
					if s := e.Prepare(it, w.Relayers[0]); s != nil {
						before = n.DumpMap(TokenStores...)
						reqs = append(reqs, &world.TxReq{Signer: s.Signer, Msgs: []sdk.Msg{s.Msg}, Label: "lost:" + it.String()})
					}
				}
				_, err := w.Block(n, reqs, world.CrashAfterFinalize)
				c.Check(err)
				c.Check(n.Restart())
				w.Stats.Inc("crash-after-finalize")
				if d := world.DiffDumps(before, n.DumpMap(TokenStores...)); len(d) > 0 {
					c.Violate("C19/lost-block-left-trace", "%s: a block lost between FinalizeBlock and Commit changed: %s", n.Name, diffSummary(d, 4))
				}
			}
		}
	}
	w.Stats.Add("failed-txs", failed)
	c.Nontrivial = failed >= 5
}
