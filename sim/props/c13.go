package props

import (
	"fmt"

	packettypes "github.com/bianjieai/tibc-go/modules/tibc/core/04-packet/types"

	"tibcsim/core"
	"tibcsim/model"
	"tibcsim/scen"
	"tibcsim/world"
)

// C13: a relayer cannot redirect a packet to another port or around its relay
// chain.  Oracle: a receive or acknowledgement message that presents a packet
// the source committed, but with a different port or relay chain than the
// sender chose, must be rejected.

func init() {
	register(&core.Profile{Name: "c13-port-relay-edits", Property: "C13", Weight: 1, Run: runC13,
		Doc: "3-4 chains, NFT/MT traffic on direct and relayed routes; Byzantine relayer edits only the port / relay-chain fields of genuine receive and acknowledgement messages (any account, any hop)"})
}

func roleOf(p packettypes.Packet, chain string) string {
	switch chain {
	case p.DestinationChain:
		return "dest"
	case p.SourceChain:
		return "source"
	case p.RelayChain:
		return "relay"
	}
	return "other"
}

// redirectOracle compares an accepted message with what the sender committed.
func redirectOracle(c *core.Ctx, e *scen.Engine, s *scen.Sent, n *world.Node, r *world.TxResult) {
	p, _, _, ok := scen.SentPacket(s)
	if !ok || !r.OK() {
		return
	}
	kind := ""
	switch s.Msg.(type) {
	case *packettypes.MsgRecvPacket:
		if world.CountEvents(r.Events, packettypes.EventTypeRecvPacket) > 0 {
			kind = "recv"
		}
	case *packettypes.MsgAcknowledgement:
		if world.CountEvents(r.Events, packettypes.EventTypeAcknowledgePacket) > 0 {
			kind = "ack"
		}
	}
	if kind == "" {
		return
	}
	// what did the sender choose?  (first commitment of this key on the source chain)
	cs := e.PM.On(p.SourceChain).Commits[model.KeyOf(p)]
	if len(cs) == 0 {
		return // not a committed packet at all: C01's concern
	}
	orig := cs[0].Packet
	if string(orig.Data) != string(p.Data) {
		return // other data: C01/C03
	}
	if orig.Port != p.Port {
		c.Violate(fmt.Sprintf("C13/%s-accepted/edited-port@%s", kind, roleOf(orig, n.Name)),
			"%s (%s of the packet) accepted %s of committed packet %s with port %q although the sender chose %q", n.Name, roleOf(orig, n.Name), kind, model.KeyOf(p), p.Port, orig.Port)
	}
	if orig.RelayChain != p.RelayChain {
		what := "relay-replaced"
		if orig.RelayChain == "" {
			what = "relay-added"
		} else if p.RelayChain == "" {
			what = "relay-removed"
		}
		c.Violate(fmt.Sprintf("C13/%s-accepted/%s@%s", kind, what, roleOf(orig, n.Name)),
			"%s (%s of the packet) accepted %s of committed packet %s with relay chain %q although the sender chose %q", n.Name, roleOf(orig, n.Name), kind, model.KeyOf(p), p.RelayChain, orig.RelayChain)
	}
}

func runC13(c *core.Ctx) {
	ch := c.Ch
	nChains := ch.Range(3, 4)
	w, e := buildTraffic(c, nChains, world.DefaultClientParams())
	uni := scen.DefaultUniverse()
	uni.BadReceiverPct = 20
	e.SeedTokens(uni, 2)
	edits := 0
	e.OnRelayTx = func(s *scen.Sent, n *world.Node, r *world.TxResult, before map[string]string) {
		redirectOracle(c, e, s, n, r)
		if s.Mut != "" {
			edits++
			w.Stats.Inc("byz-" + firstTok(s.Mut))
			if r.OK() {
				w.Stats.Inc("byz-accepted")
			}
		}
	}
	steps := (50 + ch.Int(70)) * c.Scale
	for i := 0; i < steps; i++ {
		c.Step("c13")
		switch ch.Pick([]int{30, 30, 40}) {
		case 0:
			e.RandomUserOp(w.Nodes[ch.Int(len(w.Nodes))], uni)
		case 1:
			if it := pickPending(c, e); it != nil {
				e.Deliver(it, w.Relayers[ch.Int(2)])
			}
		case 2:
			orig := byzSource(c, e, scen.KRecv, scen.KAck)
			if orig == nil {
				continue
			}
			m := e.Mutate(orig, []string{scen.MutPort, scen.MutRelay}[ch.Int(2)])
			if m == nil {
				continue
			}
			// the edited message may be sent to the original next hop or elsewhere
			if ch.Bool(1, 2) { // any chain of the world: every role (source, relay, destination, bystander)
				m.Target = w.Nodes[ch.Int(len(w.Nodes))].Name
			}
			if ch.Bool(1, 4) {
				if m2 := e.Mutate(m, scen.MutSigner); m2 != nil {
					m2.Mut = m.Mut
					m = m2
				}
			}
			e.Submit(m)
		}
	}
	c.Nontrivial = edits >= 3
}

func firstTok(s string) string {
	for i, r := range s {
		if r == '-' || r == '+' {
			return s[:i]
		}
	}
	return s
}
