package props

import (
	"strings"

	nfttransfer "github.com/bianjieai/tibc-go/modules/tibc/apps/nft_transfer/types"
	packettypes "github.com/bianjieai/tibc-go/modules/tibc/core/04-packet/types"

	"tibcsim/core"
	"tibcsim/model"
	"tibcsim/scen"
	"tibcsim/world"
)

// C04: NFT transfers never duplicate an NFT or release escrow to the wrong claimant.

var tokenChainNames = []string{"chainaaaa", "chainbbbb", "chaincccc", "chaindddd"}

// lookalikeChainNames are chain names that are suffixes / prefixes of one another, so that
// any path arithmetic done with string prefix, suffix or substring tests instead of whole
// path elements goes wrong.
var lookalikeChainNames = []string{"irishub-mainnet", "hub-mainnet", "sub-irishub-mainnet", "hub-mainnet.x"}

// c04ChainFirst, when set, makes the class-name grammar of runC04 start names with chain names.
var c04ChainFirst bool

// tokenNamesOverride, when set, replaces tokenChainNames for the run in progress.
var tokenNamesOverride []string

// withLookalikeChains runs a scenario in a world whose chains carry lookalikeChainNames.
func withLookalikeChains(run func(c *core.Ctx)) func(c *core.Ctx) {
	return func(c *core.Ctx) {
		tokenNamesOverride = lookalikeChainNames
		defer func() { tokenNamesOverride = nil }()
		run(c)
	}
}

func init() {
	register(&core.Profile{Name: "c04-nft-conservation", Property: "C04", Weight: 3, Run: func(c *core.Ctx) { runC04(c, false) },
		Doc: "2-4 chains, direct and relayed routes; users issue classes from an adversarial set (names that look like voucher paths, contain '/', start with the path prefix), mint, transfer locally, send across chains to users of other chains, send vouchers onward and back, burn; honest relayer with reordering, duplication and error acks; NftModel identities checked after every tx"})
	register(&core.Profile{Name: "c04-lookalike-chains", Property: "C04", Weight: 1, Run: withLookalikeChains(func(c *core.Ctx) { runC04(c, false) }),
		Doc: "c04-nft-conservation in a world whose chain names are suffixes / prefixes of one another (irishub-mainnet, hub-mainnet, sub-irishub-mainnet, hub-mainnet.x)"})
	register(&core.Profile{Name: "c04-chain-named-classes", Property: "C04", Weight: 1, Run: func(c *core.Ctx) {
		c04ChainFirst = true
		defer func() { c04ChainFirst = false }()
		runC04(c, false)
	}, Doc: "c04-nft-conservation with native class names whose first segment is a chain name (<chain>/zz/kitty): further along a route such a name reads like part of a voucher path"})
	register(&core.Profile{Name: "c04-nft-conservation-crash", Property: "C04", Weight: 1, Fault: true, Run: func(c *core.Ctx) { runC04(c, true) },
		Doc: "same with crash/restart between steps"})
}

// buildTokenWorld is buildTraffic with chain names that may appear inside NFT class names.
func buildTokenWorld(c *core.Ctx, nChains int) (*world.World, *scen.Engine) {
	names := tokenChainNames
	if tokenNamesOverride != nil {
		names = tokenNamesOverride
	}
	w, err := world.NewWorld(c.Ch, world.WorldConfig{ChainNames: names[:nChains]})
	c.Check(err)
	c.W = w
	c.Check(w.ConnectAll(world.DefaultClientParams()))
	for _, n := range w.Nodes {
		c.Check(w.SetRules(n, []string{"*,*,*"}))
		_, err := w.Block(n, nil, world.NoCrash)
		c.Check(err)
	}
	return w, scen.NewEngine(c, w)
}

// adversarialClasses: everything irismod's ValidateDenomID accepts that could
// confuse path arithmetic.
func adversarialClasses(w *world.World) []string {
	out := []string{"kitty", "doggy", "nft", "nftx", "nfta/b", "kit/ty", "mtx", "nft/x", "a/b/c/kitty"}
	for _, a := range w.Nodes {
		for _, b := range w.Nodes {
			if a != b {
				out = append(out, "nft/"+a.Name+"/"+b.Name+"/kitty")
			}
		}
	}
	return out
}

// nftHooks wires the NftModel to an engine; report turns model problems into violations.
func nftHooks(c *core.Ctx, e *scen.Engine, m *model.NftModel) {
	flush := func() {
		m.CheckConservation()
		for _, p := range m.Problems {
			c.Violate(p.Sig, "%s", p.Detail)
		}
		m.Problems = nil
	}
	e.OnUserTx = func(a *scen.UserAct, n *world.Node, r *world.TxResult, _ map[string]string) {
		d := m.Observe(n)
		if !r.OK() {
			m.Apply(model.NftCtxNoTokenTx, n.Name, d, model.PKey{}, model.NftKey{}, "", "")
			flush()
			return
		}
		switch a.Kind {
		case "nft-mint":
			m.Apply(model.NftCtxMint, n.Name, d, model.PKey{}, model.NftKey{}, "", "")
		case "nft-send":
			m.Apply(model.NftCtxLocalSend, n.Name, d, model.PKey{}, model.NftKey{}, "", "")
		case "nft-burn":
			m.Apply(model.NftCtxBurn, n.Name, d, model.PKey{}, model.NftKey{}, "", "")
		case "nft-xfer":
			msg := r.Req.Msgs[0].(*nfttransfer.MsgNftTransfer)
			var pk model.PKey
			for _, ev := range world.ParsePacketEvents(r.Events) {
				if ev.Type == packettypes.EventTypeSendPacket {
					pk = model.KeyOf(ev.Packet)
				}
			}
			m.Apply(model.NftCtxXfer, n.Name, d, pk, model.NftKey{Chain: n.Name, Class: msg.Class, ID: msg.Id}, msg.Sender, msg.Receiver)
		default:
			m.Apply(model.NftCtxNoTokenTx, n.Name, d, model.PKey{}, model.NftKey{}, "", "")
		}
		flush()
	}
	e.OnRelayTx = func(s *scen.Sent, n *world.Node, r *world.TxResult, _ map[string]string) {
		d := m.Observe(n)
		ctx := model.NftCtxNoTokenTx
		var pk model.PKey
		receiver := ""
		if r.OK() && s.Item != nil {
			p, ack, _, ok := scen.SentPacket(s)
			if ok && p.Port == "NFT" {
				pk = model.KeyOf(p)
				var data nfttransfer.NonFungibleTokenPacketData
				_ = data.Unmarshal(p.Data)
				receiver = data.Receiver
				switch s.Item.Kind {
				case scen.KRecv:
					if p.DestinationChain == n.Name {
						for _, ev := range world.ParsePacketEvents(r.Events) {
							if ev.Type == packettypes.EventTypeWriteAck {
								if succ, ok := IsSuccessAck(ev.Ack); ok && succ {
									ctx = model.NftCtxRecvOK
								}
							}
						}
					}
				case scen.KAck:
					if p.SourceChain == n.Name && world.CountEvents(r.Events, packettypes.EventTypeAcknowledgePacket) > 0 {
						if succ, ok := IsSuccessAck(ack); ok && !succ {
							ctx = model.NftCtxRefund
						}
					}
				}
			}
		}
		m.Apply(ctx, n.Name, d, pk, model.NftKey{}, "", receiver)
		flush()
	}
}

func runC04(c *core.Ctx, crashes bool) {
	ch := c.Ch
	nChains := ch.Range(2, 4)
	if c04ChainFirst && nChains < 4 && ch.Bool(2, 3) {
		nChains = 4 // long routes: a name is misread only some hops away from its origin
	}
	w, e := buildTokenWorld(c, nChains)
	m := model.NewNftModel(world.ModuleAddr("NFT"))
	for _, n := range w.Nodes {
		m.Observe(n)
	}
	nftHooks(c, e, m)
	classes := adversarialClasses(w)
	// plus look-alikes composed per run from a small grammar: 1-5 '/'-separated segments, the
	// first one nft-ish, chain names and victim class names in the other positions
	firsts := []string{"nft", "nftx", "nfta", "nftq", "kitty", "mtx"}
	segs := []string{"kitty", "doggy", "zz", "nft", "a"}
	for _, n := range w.Nodes {
		segs = append(segs, n.Name, n.Name)
	}
	if c04ChainFirst { // native classes whose FIRST segment is a chain name: "<chain>/zz/kitty"
		firsts = []string{"kitty", "zz"}
		for _, n := range w.Nodes {
			firsts = append(firsts, n.Name, n.Name)
		}
	}
	for k := 0; k < 6; k++ {
		nseg := 1 + ch.Int(5)
		parts := []string{firsts[ch.Int(len(firsts))]}
		for j := 1; j < nseg; j++ {
			parts = append(parts, segs[ch.Int(len(segs))])
		}
		if nseg >= 3 && ch.Bool(2, 3) {
			parts[len(parts)-1] = "kitty" // the class most tokens live in
		}
		if ch.Bool(1, 2) { // the shape of a one-hop voucher path: <first>/<chain>/<x>/<victim class>
			parts = []string{parts[0], w.Nodes[ch.Int(len(w.Nodes))].Name, segs[ch.Int(len(segs))], "kitty"}
		}
		if c04ChainFirst && ch.Bool(2, 3) { // the tail of a longer path: <chain>/<x>/<victim class>
			parts = []string{w.Nodes[ch.Int(len(w.Nodes))].Name, segs[ch.Int(len(segs))], "kitty"}
		}
		classes = append(classes, strings.Join(parts, "/"))
	}
	lookalikes := classes[len(classes)-6:]
	pickClass := func() string {
		if ch.Bool(1, 2) {
			return lookalikes[ch.Int(len(lookalikes))]
		}
		return classes[ch.Int(len(classes))]
	}
	ids := []string{"aaa", "bbb", "xx1"}
	xfers := 0

	users := map[string]*world.Account{}
	for _, u := range w.Users {
		users[u.Addr.String()] = u
	}
	// seeding: "kitty" everywhere plus one adversarial class per chain, a few NFTs each
	for _, n := range w.Nodes {
		c.Step("c04-seed")
		u := w.Users[ch.Int(len(w.Users))]
		e.IssueNFTDenom(n, u, "kitty")
		e.IssueNFTDenom(n, u, pickClass())
		_, cls := n.NFTSnapshot()
		for k := 0; k < 3 && len(cls) > 0; k++ {
			e.MintNFT(n, u, cls[ch.Int(len(cls))], ids[ch.Int(len(ids))], w.Users[ch.Int(len(w.Users))])
		}
	}
	steps := (60 + ch.Int(90)) * c.Scale
	if c04ChainFirst {
		steps *= 2
	}
	for i := 0; i < steps; i++ {
		c.Step("c04")
		n := w.Nodes[ch.Int(len(w.Nodes))]
		if n.Down {
			c.Check(n.Restart())
			m.Observe(n)
		}
		u := w.Users[ch.Int(len(w.Users))]
		nfts, cls := n.NFTSnapshot()
		var owned []world.NFTInfo
		for _, t := range nfts {
			if users[t.Owner] != nil {
				owned = append(owned, t)
			}
		}
		switch ch.Pick([]int{6, 10, 4, 2, 22, 40, 6}) {
		case 0:
			e.IssueNFTDenom(n, u, pickClass())
		case 1:
			if len(cls) > 0 {
				// the same small id set in every class: ids collide with escrowed tokens on purpose
				e.MintNFT(n, u, cls[ch.Int(len(cls))], ids[ch.Int(len(ids))], w.Users[ch.Int(len(w.Users))])
			}
		case 2:
			if len(owned) > 0 {
				t := owned[ch.Int(len(owned))]
				e.TransferNFT(n, users[t.Owner], t.Class, t.ID, w.Users[ch.Int(len(w.Users))])
			}
		case 3:
			if len(owned) > 0 {
				t := owned[ch.Int(len(owned))]
				e.BurnNFT(n, users[t.Owner], t.Class, t.ID)
			}
		case 4:
			if len(owned) > 0 {
				t := owned[ch.Int(len(owned))]
				if c04ChainFirst && ch.Bool(2, 3) { // keep vouchers travelling: multi-hop journeys
					var vs []world.NFTInfo
					for _, x := range owned {
						if strings.HasPrefix(x.Class, "tibc-") {
							vs = append(vs, x)
						}
					}
					if len(vs) > 0 {
						t = vs[ch.Int(len(vs))]
					}
				}
				var others []*world.Node
				for _, o := range w.Nodes {
					if o != n {
						others = append(others, o)
					}
				}
				d := others[ch.Int(len(others))]
				relay := ""
				if len(others) > 1 && ch.Bool(1, 3) {
					for _, o := range others {
						if o != d {
							relay = o.Name
						}
					}
				}
				recv := w.Users[ch.Int(len(w.Users))].Addr.String()
				if ch.Int(100) < 12 {
					recv = "not-an-address"
				}
				if r := e.NftTransfer(n, users[t.Owner], t.Class, t.ID, recv, d.Name, relay); r.OK() {
					xfers++
				}
			}
		case 5:
			if it := pickPending(c, e); it != nil {
				if it.Kind == scen.KClean {
					it.Done = true
					continue
				}
				s := e.Deliver(it, w.Relayers[ch.Int(2)])
				if s != nil && ch.Bool(1, 5) {
					d := scen.CloneSent(s)
					d.Mut = "dup"
					e.Submit(d)
					w.Stats.Inc("dup")
				}
			}
		case 6:
			if crashes {
				crashSome(c, w)
			}
		}
	}
	// drain and check again (everything at rest: no identity may be in flight forever
	// unless its packet is undeliverable, which conservation still covers)
	e.Drain(120)
	m.CheckConservation()
	for _, p := range m.Problems {
		c.Violate(p.Sig, "%s", p.Detail)
	}
	w.Stats.Add("nft-xfers", xfers)
	c.Nontrivial = xfers >= 3
}
