package props

import (
	"fmt"

	packettypes "github.com/bianjieai/tibc-go/modules/tibc/core/04-packet/types"
	"github.com/bianjieai/tibc-go/modules/tibc/core/exported"

	"tibcsim/core"
	"tibcsim/model"
	"tibcsim/scen"
	"tibcsim/world"
)

// C02: exactly-once delivery per (source, destination, sequence).
//
// Oracles: (a) per chain and key at most one successful MsgRecvPacket and at
// most one write_acknowledgement over the whole run; (b) after a clean to N was
// accepted on a chain every later receive with sequence <= N is refused there;
// (c) completeness / bounded liveness in the fault-free tail: the honest
// relayer's message for a committed, undelivered, uncleaned packet with a
// current proof and an Active client is accepted at first attempt, and all
// traffic drains within a step budget.

func init() {
	register(&core.Profile{Name: "c02-dup-replay-clean", Property: "C02", Weight: 3, Run: func(c *core.Ctx) { runC02(c, false, false) },
		Doc: "2-3 chains, several packets per channel, cleans; transport duplicates, reorders and replays every logged receive (right after delivery, after the ack, after cleans on destination and relay, around the clean point); fault-free tail with completeness check"})
	register(&core.Profile{Name: "c02-dup-replay-clean-crash", Property: "C02", Weight: 1, Fault: true, Run: func(c *core.Ctx) { runC02(c, true, false) },
		Doc: "same with crash/restart of chains (all three crash points) between steps"})
	register(&core.Profile{Name: "c02-long-channel", Property: "C02", Weight: 2, Run: func(c *core.Ctx) { runC02(c, false, true) },
		Doc: "same, but most sends go over one (source,destination) pair so that it carries 10-40 packets (two-digit sequences); cleans over short and long ranges, then replays of every logged receive above and below the clean point"})
}

// onceOracle checks (a) and (b) after a relayer tx.
func onceOracle(c *core.Ctx, e *scen.Engine, s *scen.Sent, n *world.Node, r *world.TxResult) {
	if _, isRecv := s.Msg.(*packettypes.MsgRecvPacket); !isRecv || !r.OK() {
		return
	}
	p, _, _, _ := scen.SentPacket(s)
	k := model.KeyOf(p)
	cp := e.PM.On(n.Name)
	if world.CountEvents(r.Events, packettypes.EventTypeRecvPacket) == 0 {
		return
	}
	if cp.RecvOK[k] > 1 {
		ctx := "duplicate"
		if e.PM.On(n.Name).CleanPointAt(model.Pair{Src: k.Src, Dst: k.Dst}, r.Height-1) >= k.Seq {
			ctx = "after-clean"
		}
		c.Violate("C02/duplicate-delivery/"+ctx+"@"+roleOf(p, n.Name), "%s accepted packet %s %d times (last: %s at height %d)", n.Name, k, cp.RecvOK[k], s.Mut, r.Height)
	}
	if cp.WriteAck[k] > 1 {
		c.Violate("C02/duplicate-ack-write@"+roleOf(p, n.Name), "%s wrote an acknowledgement for %s %d times", n.Name, k, cp.WriteAck[k])
	}
	if old := cp.CleanPointAt(model.Pair{Src: k.Src, Dst: k.Dst}, r.Height-1); old >= k.Seq {
		c.Violate("C02/recv-after-clean@"+roleOf(p, n.Name), "%s accepted packet %s although its clean point was already %d", n.Name, k, old)
	}
}

// honestPreconditions observes (by queries only) whether an honest delivery of
// a receive item must succeed.
func honestRecvMustSucceed(e *scen.Engine, it *scen.Item) (bool, string) {
	w := e.W
	target, prover := w.ByName[it.Target], w.ByName[it.On]
	if target == nil || prover == nil || target.Down || prover.Down {
		return false, "node down"
	}
	k := model.KeyOf(it.P)
	if target.ClientStatus(prover.Name) != exported.Active {
		return false, "client not active"
	}
	if target.HasReceipt(k.Src, k.Dst, k.Seq) {
		return false, "already received"
	}
	if target.CleanPoint(k.Src, k.Dst) >= k.Seq {
		return false, "cleaned"
	}
	if !prover.HasCommitment(k.Src, k.Dst, k.Seq) {
		return false, "commitment gone"
	}
	if err := it.P.ValidateBasic(); err != nil {
		return false, "malformed"
	}
	if it.P.DestinationChain == target.Name {
		switch it.P.Port {
		case "NFT", "MT", "tibcmock":
		default:
			return false, "no route"
		}
	}
	return true, ""
}

func runC02(c *core.Ctx, crashes, deep bool) {
	ch := c.Ch
	nChains := ch.Range(2, 3)
	w, e := buildTraffic(c, nChains, world.DefaultClientParams())
	uni := scen.DefaultUniverse()
	uni.UnknownDestPct = 5
	for _, n := range w.Nodes { // some relay chains refuse some or all traffic
		switch ch.Int(5) {
		case 0:
			c.Check(w.SetRules(n, []string{"*,*,NFT"}))
		case 1:
			c.Check(w.SetRules(n, []string{}))
		}
	}
	e.SeedTokens(uni, 3)
	if deep {
		deepSetup(e)
	}
	replays, replaysAfterClean := 0, 0
	e.OnRelayTx = func(s *scen.Sent, n *world.Node, r *world.TxResult, before map[string]string) {
		onceOracle(c, e, s, n, r)
		if s.Expect == "accept" && !r.OK() {
			c.Violate("C02/rejected-valid-recv@"+s.Why, "honest first attempt for %s was rejected on %s: code %d %s", s.Item, n.Name, r.Code, world.Short(r.Log, 160))
		}
	}
	relayer := func() *world.Account { return w.Relayers[ch.Int(2)] }
	var held []*scen.Sent

	steps := (70 + ch.Int(110)) * c.Scale
	for i := 0; i < steps; i++ {
		c.Step("c02")
		switch ch.Pick([]int{22, 22, 24, 10, 16, 6}) {
		case 0:
			if deep && ch.Bool(3, 4) {
				deepBurst(c, e)
				continue
			}
			e.RandomUserOp(w.Nodes[ch.Int(len(w.Nodes))], uni)
		case 1: // honest delivery, possibly duplicated by the transport
			it := pickPending(c, e)
			if it == nil {
				continue
			}
			if deep { // keep up with the bursts
				for j, k := 0, ch.Int(3); j < k; j++ {
					if it2 := pickPending(c, e); it2 != nil {
						e.Deliver(it2, relayer())
					}
				}
			}
			s := e.Deliver(it, relayer())
			if s != nil && ch.Bool(1, 3) {
				d := scen.CloneSent(s)
				d.Mut = "dup"
				e.Submit(d)
				w.Stats.Inc("dup")
			}
		case 2: // replay of a logged receive (old bytes, old proof)
			old := genuineSent(e, scen.KRecv)
			if len(old) == 0 {
				continue
			}
			s := old[ch.Int(len(old))]
			d := scen.CloneSent(s)
			d.Mut = "replay"
			if ch.Bool(1, 3) { // with a fresh proof at the newest height
				if f := e.Prepare(s.Item, relayer()); f != nil {
					d = f
					d.Mut = "replay-fresh"
				}
			}
			p, _, _, _ := scen.SentPacket(d)
			if e.PM.On(d.Target).CleanPoint(model.Pair{Src: p.SourceChain, Dst: p.DestinationChain}) >= p.Sequence {
				replaysAfterClean++
				w.Stats.Inc("probe-replay-after-clean")
			}
			if e.PM.On(d.Target).CleanPoint(model.Pair{Src: p.SourceChain, Dst: p.DestinationChain}) == p.Sequence {
				w.Stats.Inc("probe-replay-at-cleanpoint")
			}
			replays++
			w.Stats.Inc("replay")
			e.Submit(d)
		case 3: // user clean on a source chain
			n := w.Nodes[ch.Int(len(w.Nodes))]
			if ch.Bool(1, 6) {
				foreignClean(c, e, n)
				continue
			}
			userClean(c, e, n)
		case 4:
			// transport delay / reordering: a message built now (proof of now) is held back and
			// released later, possibly after newer messages overtook it; old cleans are replayed too
			switch ch.Int(3) {
			case 0:
				if it := pickPending(c, e); it != nil {
					if s := e.Prepare(it, relayer()); s != nil {
						s.Mut = "delayed"
						held = append(held, s)
						w.Stats.Inc("delay-held")
					}
				}
				continue
			case 1:
				if len(held) > 0 {
					i := ch.Int(len(held))
					s := held[i]
					held = append(held[:i], held[i+1:]...)
					w.Stats.Inc("delay-released")
					e.Submit(s)
				}
				continue
			default:
				if old := genuineSent(e, scen.KClean); len(old) > 0 {
					d := scen.CloneSent(old[ch.Int(len(old))])
					d.Mut = "replay-clean"
					w.Stats.Inc("replay-clean")
					e.Submit(d)
					continue
				}
			}
			n := w.Nodes[ch.Int(len(w.Nodes))]
			if !n.Down {
				_, err := w.Block(n, nil, world.NoCrash)
				c.Check(err)
			}
		case 5:
			if crashes {
				crashSome(c, w)
			}
		}
	}
	// fault-free tail: completeness + bounded liveness
	for _, n := range w.Nodes {
		if n.Down {
			c.Check(n.Restart())
		}
	}
	pend := len(e.Pending())
	budget := 3*3*pend + 20
	used := 0
	for used < budget {
		p := e.Pending()
		if len(p) == 0 {
			break
		}
		progressed := false
		for _, it := range p {
			if it.Done || it.Tries > 2 {
				continue
			}
			c.Step("tail")
			s := e.Prepare(it, w.Relayers[0])
			if s == nil {
				it.Tries++
				continue
			}
			if it.Kind == scen.KRecv {
				if must, _ := honestRecvMustSucceed(e, it); must {
					s.Expect = "accept"
					s.Why = roleOf(it.P, it.Target)
					w.Stats.Inc("probe-completeness-asserted")
				}
			}
			e.Submit(s)
			used++
			progressed = true
			if used >= budget {
				break
			}
		}
		if !progressed {
			break
		}
	}
	// whatever is still pending must be legitimately undeliverable
	for _, it := range e.Pending() {
		if it.Kind != scen.KRecv {
			continue
		}
		if must, _ := honestRecvMustSucceed(e, it); must && it.Tries <= 2 {
			c.Violate("C02/not-drained", "after the fault-free tail (%d relayer steps, budget %d) %s is still undelivered although deliverable", used, budget, it)
		}
	}
	c.Nontrivial = replays >= 3
	_ = fmt.Sprint
}

// userClean submits a MsgCleanPacket from chain n for one of its outgoing pairs
// with N drawn around the interesting values.
func userClean(c *core.Ctx, e *scen.Engine, n *world.Node) *world.TxResult {
	ch := c.Ch
	cp := e.PM.On(n.Name)
	var pairs []model.Pair
	seen := map[model.Pair]bool{}
	for _, k := range sortedPKeys(cp.Commits) {
		pr := model.Pair{Src: k.Src, Dst: k.Dst}
		if k.Src == n.Name && !seen[pr] {
			seen[pr] = true
			pairs = append(pairs, pr)
		}
	}
	if len(pairs) == 0 {
		ch.Int(1)
		return nil
	}
	pr := pairs[ch.Int(len(pairs))]
	cur := n.CleanPoint(pr.Src, pr.Dst)
	maxAck := n.MaxAckSeq(pr.Src, pr.Dst)
	next := n.NextSeqSend(pr.Src, pr.Dst)
	cands := []uint64{cur, cur + 1, maxAck, maxAck + 1, next - 1, next, 1}
	if maxAck > 1 {
		cands = append(cands, maxAck-1)
	}
	if maxAck > cur+1 { // anywhere inside the admissible window
		cands = append(cands, cur+1+uint64(ch.Int(int(maxAck-cur))), cur+1+uint64(ch.Int(int(maxAck-cur))))
	} else {
		ch.Int(1)
		ch.Int(1)
	}
	N := cands[ch.Int(len(cands))]
	if N == 0 {
		N = 1
	}
	// relay field: the relay used by packets of this pair (if any), or empty
	relay := ""
	for _, k := range sortedPKeys(cp.Commits) {
		if k.Src == pr.Src && k.Dst == pr.Dst {
			if r := cp.Commits[k][0].Packet.RelayChain; r != "" && ch.Bool(1, 2) {
				relay = r
			}
		}
	}
	e.W.Stats.Inc("clean-request")
	return e.CleanPacket(n, e.W.Users[ch.Int(len(e.W.Users))], pr.Dst, relay, N)
}

func crashSome(c *core.Ctx, w *world.World) {
	ch := c.Ch
	n := w.Nodes[ch.Int(len(w.Nodes))]
	if n.Down {
		return
	}
	pt := []world.CrashPoint{world.CrashBeforeFinalize, world.CrashAfterFinalize, world.CrashAfterCommit}[ch.Int(3)]
	_, err := w.Block(n, nil, pt)
	c.Check(err)
	w.Stats.Inc(fmt.Sprintf("crash-%d", int(pt)))
	c.Check(n.Restart())
}
