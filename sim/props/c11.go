package props

import (
	"bytes"
	"fmt"

	sdk "github.com/cosmos/cosmos-sdk/types"

	clienttypes "github.com/bianjieai/tibc-go/modules/tibc/core/02-client/types"
	packettypes "github.com/bianjieai/tibc-go/modules/tibc/core/04-packet/types"
	routingtypes "github.com/bianjieai/tibc-go/modules/tibc/core/26-routing/types"

	"tibcsim/core"
	"tibcsim/model"
	"tibcsim/scen"
	"tibcsim/world"
)

// C11: relay chains forward faithfully, enforce the whitelist, run no app logic.

func init() {
	register(&core.Profile{Name: "c11-relay", Property: "C11", Weight: 3, Run: func(c *core.Ctx) { runC11(c, false) },
		Doc: "3 chains A-B-C, NFT and MT transfers A->C and C->A via B; B's rule set drawn per run and changed by governance during the run; destinations known and unknown to B; success and error outcomes at the destination; every relay order"})
	register(&core.Profile{Name: "c11-relay-crash", Property: "C11", Weight: 1, Fault: true, Run: func(c *core.Ctx) { runC11(c, true) },
		Doc: "same with crash/restart of the relay chain between the legs"})
	register(&core.Profile{Name: "c11-relay-twin", Property: "C11", Weight: 1, Run: runC11Twin,
		Doc: "twin worlds: the same seeded transfer script executed once via the relay chain (permissive rules) and once directly; final token state on source and destination must be identical"})
}

var c11RuleSets = [][]string{
	{"*,*,*"},
	{"*,*,NFT"},
	{"*,*,MT"},
	{"chain-aaa,chain-ccc,*"},
	{"chain-ccc,chain-aaa,NFT", "chain-aaa,*,MT"},
	{},
	{"chain-aaa,chain-ccc,NFT"},
}

// c11NearMissField draws a rule field around the real identifier x: the identifier, the
// wildcard, or a look-alike that differs from it by one character at either end.
func c11NearMissField(c *core.Ctx, xs ...string) string {
	ch := c.Ch
	x := xs[ch.Int(len(xs))]
	switch ch.Int(8) {
	case 0, 1, 2:
		return x
	case 3:
		return "*"
	case 4:
		return x[1:] // a suffix of the real name
	case 5:
		return x[:len(x)-1] // a prefix of the real name
	case 6:
		return "x" + x
	default:
		return x + "x"
	}
}

// c11NearMissRules draws a rule set of 2-4 rules over the real chains and ports and their
// one-character look-alikes, so that "almost matching" rules sit first, last and in the
// middle of multi-rule sets.
func c11NearMissRules(c *core.Ctx, a, b string) []string {
	n := 2 + c.Ch.Int(3)
	var out []string
	for i := 0; i < n; i++ {
		out = append(out, c11NearMissField(c, a, b)+","+c11NearMissField(c, a, b)+","+c11NearMissField(c, "NFT", "MT"))
	}
	return out
}

func runC11(c *core.Ctx, crashes bool) {
	ch := c.Ch
	w, e := buildTraffic(c, 3, world.DefaultClientParams())
	A, B, C := w.Nodes[0], w.Nodes[1], w.Nodes[2]
	rules := c11RuleSets[ch.Int(len(c11RuleSets))]
	c.Check(w.SetRules(B, rules))
	_, err := w.Block(B, nil, world.NoCrash)
	c.Check(err)
	e.DumpStores = []string{"nft", "mt", "NFT", "MT"}
	uni := scen.DefaultUniverse()
	uni.BadReceiverPct = 25
	e.SeedTokens(uni, 3)
	if ch.Int(3) == 1 {
		rules = c11NearMissRules(c, A.Name, C.Name)
		c.Check(w.SetRules(B, rules))
		_, err := w.Block(B, nil, world.NoCrash)
		c.Check(err)
		w.Stats.Inc("near-miss-rule-set")
		w.Log.Add("rules now %q", rules)
	}
	relayed, refusedByRelay := 0, 0

	e.OnRelayTx = func(s *scen.Sent, n *world.Node, r *world.TxResult, before map[string]string) {
		if s.Item == nil || s.Mut != "" {
			return
		}
		p, a, _, ok := scen.SentPacket(s)
		if !ok || p.RelayChain == "" {
			return
		}
		k := model.KeyOf(p)
		passThrough := n.Name == p.RelayChain
		switch s.Item.Kind {
		case scen.KRecv:
			if !passThrough {
				return
			}
			relayed++
			_, knowsDest := n.ClientState(p.DestinationChain)
			if n != B {
				return // only B's rule set is modelled (the other chains are permissive and covered by twin/C12)
			}
			authorised := RoutingAuthorised(rules, p.SourceChain, p.DestinationChain, p.Port)
			if !r.OK() {
				// an honest, provable receive on the relay chain must be processed: forwarded or error-acked
				if must, _ := honestRecvMustSucceed(e, s.Item); must {
					why := "authorised"
					if !authorised {
						why = "unauthorised"
					}
					if !knowsDest {
						why += "-unknown-destination"
					}
					c.Violate("C11/relay-recv-rejected/"+why, "%s (relay) rejected the honest receive of %s: code %d %s", n.Name, k, r.Code, world.Short(r.Log, 160))
				}
				return
			}
			var fwd *packettypes.Packet
			var refusal []byte
			for _, ev := range world.ParsePacketEvents(r.Events) {
				ev := ev
				switch ev.Type {
				case packettypes.EventTypeSendPacket:
					fwd = &ev.Packet
				case packettypes.EventTypeWriteAck:
					refusal = ev.Ack
				}
			}
			shouldForward := authorised && knowsDest
			switch {
			case shouldForward && fwd == nil:
				c.Violate("C11/not-forwarded", "%s did not re-commit %s although rules %q authorise (%s,%s,%s) and it knows the destination", n.Name, k, rules, p.SourceChain, p.DestinationChain, p.Port)
			case !shouldForward && fwd != nil:
				c.Violate("C11/forwarded-unauthorised", "%s re-committed %s although rules %q do not authorise (%s,%s,%s) or the destination is unknown (known=%v)", n.Name, k, rules, p.SourceChain, p.DestinationChain, p.Port, knowsDest)
			case !shouldForward && refusal == nil:
				c.Violate("C11/refused-without-error-ack", "%s refused %s but recorded no acknowledgement", n.Name, k)
			}
			if refusal != nil && fwd == nil && n.HasCommitment(k.Src, k.Dst, k.Seq) {
				c.Violate("C11/refused-but-committed", "%s refused %s with an error acknowledgement but holds a forwarding commitment for it", n.Name, k)
			}
			if refusal != nil {
				refusedByRelay++
				w.Stats.Inc("probe-relay-refusal")
				if succ, ok := IsSuccessAck(refusal); !ok || succ {
					c.Violate("C11/refusal-not-error-ack", "%s refused %s with an acknowledgement that is not an error ack", n.Name, k)
				}
			}
			if fwd != nil {
				if fwd.Sequence != p.Sequence || fwd.Port != p.Port || fwd.SourceChain != p.SourceChain || fwd.DestinationChain != p.DestinationChain ||
					fwd.RelayChain != p.RelayChain || !bytes.Equal(fwd.Data, p.Data) {
					c.Violate("C11/forwarded-altered", "%s re-committed %s with altered fields: %+v vs %+v", n.Name, k, *fwd, p)
				}
				got := n.Commitment(k.Src, k.Dst, k.Seq)
				want := sha(p.Data)
				if !bytes.Equal(got, want[:]) {
					c.Violate("C11/forwarded-commitment-differs", "%s re-committed %s with commitment %x, expected %x", n.Name, k, got, want[:6])
				}
			}
			relayTokenNeutral(c, n, before, "recv", k)
		case scen.KAck:
			if passThrough {
				if !r.OK() {
					if n.HasCommitment(k.Src, k.Dst, k.Seq) && s.Item.Tries <= 1 {
						succ, _ := IsSuccessAck(a)
						what := "success-ack"
						if !succ {
							what = "error-ack"
						}
						c.Violate("C11/ack-blocked-at-relay/"+what, "%s (relay) rejected the honest acknowledgement of %s: code %d %s", n.Name, k, r.Code, world.Short(r.Log, 200))
					}
					return
				}
				// unchanged on the way back
				for _, ev := range world.ParsePacketEvents(r.Events) {
					if ev.Type == packettypes.EventTypeWriteAck && !bytes.Equal(ev.Ack, a) {
						c.Violate("C11/ack-altered-at-relay", "%s passed on acknowledgement %q for %s but received %q", n.Name, world.Short(string(ev.Ack), 40), k, world.Short(string(a), 40))
					}
				}
				relayTokenNeutral(c, n, before, "ack", k)
			} else if n.Name == p.SourceChain && r.OK() {
				// end to end: the bytes accepted at the source are the bytes the origin of the ack wrote
				origin := originAck(e, p)
				if origin != nil && !bytes.Equal(origin, a) {
					c.Violate("C11/ack-not-end-to-end", "%s accepted acknowledgement %q for %s, the chain that produced it wrote %q", n.Name, world.Short(string(a), 40), k, world.Short(string(origin), 40))
				}
			}
		}
	}

	steps := (60 + ch.Int(80)) * c.Scale
	for i := 0; i < steps; i++ {
		c.Step("c11")
		switch ch.Pick([]int{30, 45, 8, 7, 10}) {
		case 0: // relayed transfer between A and C (sometimes to a destination B does not know)
			src, dst := A, C
			if ch.Bool(1, 2) {
				src, dst = C, A
			}
			dest := dst.Name
			if ch.Bool(1, 8) {
				dest = "chain-zzz9"
				w.Stats.Inc("unknown-destination-send")
			}
			c11Transfer(c, e, src, dest, B.Name, uni)
		case 1:
			if it := pickPending(c, e); it != nil {
				e.Deliver(it, w.Relayers[ch.Int(2)])
			}
		case 2: // governance changes B's rules
			if B.Down {
				continue
			}
			nr := c11RuleSets[ch.Int(len(c11RuleSets))]
			if ch.Int(3) == 1 {
				nr = c11NearMissRules(c, A.Name, C.Name)
				w.Stats.Inc("near-miss-rule-set")
			}
			msg := &routingtypes.MsgSetRoutingRules{Title: "t", Description: "d", Rules: nr, Authority: world.GovAuthority()}
			msgs := []sdk.Msg{msg}
			if ch.Int(4) == 1 {
				// the proposal also carries a message that fails when executed (creating a client that
				// exists): the whole proposal is rolled back and the stored rules stay as they were
				if cs, ok := B.ClientState(A.Name); ok {
					if cons, ok := B.ConsensusState(A.Name, cs.GetLatestHeight()); ok {
						bad, err := clienttypes.NewMsgCreateClient(A.Name, cs, cons, world.GovAuthority())
						c.Check(err)
						bad.ChainName, bad.Title, bad.Description = A.Name, "t", "d"
						msgs = append(msgs, bad)
						w.Stats.Inc("gov-rule-change-in-failing-proposal")
					}
				}
			}
			g, err := w.GovExec(B, msgs, "rules")
			c.Check(err)
			if g.SubmitCode == 0 && g.Executed() {
				rules = nr
				w.Stats.Inc("gov-rule-change")
			}
			w.Log.Add("rules now %q", rules)
		case 3:
			e.RandomUserOp(w.Nodes[ch.Int(len(w.Nodes))], uni)
		case 4:
			if crashes && !B.Down {
				pt := []world.CrashPoint{world.CrashBeforeFinalize, world.CrashAfterFinalize, world.CrashAfterCommit}[ch.Int(3)]
				_, err := w.Block(B, nil, pt)
				c.Check(err)
				w.Stats.Inc("crash-relay")
				c.Check(B.Restart())
			}
		}
	}
	// the destination never sees a packet the relay refused
	for _, k := range sortedPKeys(e.PM.On(B.Name).Acks) {
		for _, a := range e.PM.On(B.Name).Acks[k] {
			if a.Origin && k.Dst != B.Name {
				if e.PM.On(k.Dst).EverReceived(k) {
					c.Violate("C11/refused-packet-delivered", "%s refused %s but %s received it", B.Name, k, k.Dst)
				}
			}
		}
	}
	c.Nontrivial = relayed >= 3
	_ = fmt.Sprint
}

// originAck returns the acknowledgement bytes written by the chain that
// produced the ack for p (destination, or the relay chain when it refused).
func originAck(e *scen.Engine, p packettypes.Packet) []byte {
	k := model.KeyOf(p)
	for _, chain := range []string{p.DestinationChain, p.RelayChain} {
		if chain == "" {
			continue
		}
		for _, a := range e.PM.On(chain).Acks[k] {
			if a.Origin {
				return a.Bytes
			}
		}
	}
	return nil
}

func relayTokenNeutral(c *core.Ctx, n *world.Node, before map[string]string, what string, k model.PKey) {
	if before == nil {
		return
	}
	after := n.DumpMap("nft", "mt", "NFT", "MT")
	if d := world.DiffDumps(before, after); len(d) > 0 {
		c.Violate("C11/relay-ran-app-logic/"+what, "%s (relay) changed application state while passing on the %s of %s: %s", n.Name, what, k, diffSummary(d, 3))
	}
}

// c11Transfer sends some token the chain's users own to dest via relay.
func c11Transfer(c *core.Ctx, e *scen.Engine, n *world.Node, dest, relay string, uni scen.Universe) {
	ch := c.Ch
	nfts, _ := n.NFTSnapshot()
	bals, _ := n.MTSnapshot()
	users := map[string]*world.Account{}
	for _, u := range e.W.Users {
		users[u.Addr.String()] = u
	}
	var on []world.NFTInfo
	for _, t := range nfts {
		if users[t.Owner] != nil {
			on = append(on, t)
		}
	}
	var om []world.MTBalance
	for _, b := range bals {
		if users[b.Owner] != nil && b.Amount > 0 {
			om = append(om, b)
		}
	}
	recv := e.W.Users[ch.Int(len(e.W.Users))].Addr.String()
	if ch.Int(100) < uni.BadReceiverPct {
		recv = "not-an-address"
	}
	if len(on) > 0 && (len(om) == 0 || ch.Bool(1, 2)) {
		t := on[ch.Int(len(on))]
		e.NftTransfer(n, users[t.Owner], t.Class, t.ID, recv, dest, relay)
	} else if len(om) > 0 {
		b := om[ch.Int(len(om))]
		amt := 1 + uint64(ch.Int(int(minU64(b.Amount, 20))))
		e.MtTransfer(n, users[b.Owner], b.Class, b.ID, amt, recv, dest, relay)
	} else {
		// mint something to send later
		e.RandomUserOp(n, uni)
	}
}

// ---- twin run ----

type twinOp struct {
	kind     int // 0 nft, 1 mt
	from     int // 0 = A, 1 = C
	pick     int
	amt      uint64
	receiver int
	bad      bool
}

func runC11Twin(c *core.Ctx) {
	ch := c.Ch
	nOps := 4 + ch.Int(8)
	var script []twinOp
	for i := 0; i < nOps; i++ {
		script = append(script, twinOp{kind: ch.Int(2), from: ch.Int(2), pick: ch.Int(1000), amt: 1 + uint64(ch.Int(30)), receiver: ch.Int(3), bad: ch.Int(100) < 20})
	}
	final := [2]string{}
	var first *world.World
	for variant := 0; variant < 2; variant++ {
		c.Step(fmt.Sprintf("twin-world-%d", variant))
		w, e := buildTraffic(c, 3, world.DefaultClientParams())
		A, B, C := w.Nodes[0], w.Nodes[1], w.Nodes[2]
		relay := ""
		if variant == 0 {
			relay = B.Name
		}
		// identical seeding in both worlds (fixed, not drawn)
		for _, n := range []*world.Node{A, C} {
			u0 := w.Users[0]
			e.IssueNFTDenom(n, u0, "kitty")
			for _, id := range []string{"aaa", "bbb", "ccc"} {
				e.MintNFT(n, u0, "kitty", id, w.Users[len(id)%len(w.Users)])
			}
			e.IssueMTDenom(n, u0, "mtclass")
			for _, d := range n.App.MtKeeper.GetDenoms(n.QueryCtx()) {
				e.MintMT(n, u0, d.Id, "", 500, w.Users[1])
			}
		}
		for _, op := range script {
			n, dst := A, C
			if op.from == 1 {
				n, dst = C, A
			}
			users := map[string]*world.Account{}
			for _, u := range w.Users {
				users[u.Addr.String()] = u
			}
			recv := w.Users[op.receiver%len(w.Users)].Addr.String()
			if op.bad {
				recv = "not-an-address"
			}
			if op.kind == 0 {
				nfts, _ := n.NFTSnapshot()
				var on []world.NFTInfo
				for _, t := range nfts {
					if users[t.Owner] != nil {
						on = append(on, t)
					}
				}
				if len(on) > 0 {
					t := on[op.pick%len(on)]
					e.NftTransfer(n, users[t.Owner], t.Class, t.ID, recv, dst.Name, relay)
				}
			} else {
				bals, _ := n.MTSnapshot()
				var om []world.MTBalance
				for _, b := range bals {
					if users[b.Owner] != nil && b.Amount > 0 {
						om = append(om, b)
					}
				}
				if len(om) > 0 {
					b := om[op.pick%len(om)]
					e.MtTransfer(n, users[b.Owner], b.Class, b.ID, minU64(op.amt, b.Amount), recv, dst.Name, relay)
				}
			}
			e.Drain(40)
		}
		final[variant] = "A:\n" + tokenView(A) + "C:\n" + tokenView(C)
		if variant == 0 {
			first = w
		} else {
			// one fingerprint for both worlds
			w.Log.Add("twin world 0 log %s blocks=%d", first.Log.Hash(), first.Blocks)
			w.Blocks += first.Blocks
			w.Txs += first.Txs
		}
		w.Stats.Inc("twin-world")
	}
	if final[0] != final[1] {
		c.Violate("C11/twin-differs", "final token state on source and destination differs between the relayed and the direct execution of the same script:\nrelayed:\n%s\ndirect:\n%s", final[0], final[1])
	}
	c.Nontrivial = true
}
