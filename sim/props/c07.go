package props

import (
	"bytes"
	"fmt"
	"math/bits"
	"strings"
	"time"

	cmttypes "github.com/cometbft/cometbft/types"
	sdk "github.com/cosmos/cosmos-sdk/types"

	clienttypes "github.com/bianjieai/tibc-go/modules/tibc/core/02-client/types"
	commitmenttypes "github.com/bianjieai/tibc-go/modules/tibc/core/23-commitment/types"
	tmclient "github.com/bianjieai/tibc-go/modules/tibc/light-clients/07-tendermint/types"

	"tibcsim/core"
	"tibcsim/foreign/tmchain"
	"tibcsim/model"
	"tibcsim/world"
)

// C07: a Tendermint client update is accepted iff the light-client rule allows
// it; on acceptance exactly the header's consensus state is stored and the
// latest height never decreases; on rejection nothing changes.
//
// World: one real SimApp host chain with a 07-tendermint client of a virtual
// Tendermint chain (foreign/tmchain).  Every update is a real MsgUpdateClient
// tx of a registered relayer.  The expected verdict comes from
// model.TmLightModel, evaluated with the block time the tx actually ran at.

func init() {
	register(&core.Profile{Name: "c07-tm-updates", Property: "C07", Weight: 3, Run: func(c *core.Ctx) { runC07(c, false) },
		Doc: "host SimApp chain with a Tendermint client of a seeded virtual chain (1-7 validators, skewed powers, set changes, revisioned and plain chain ids; trust level, trusting period, clock drift from the tape); honest adjacent/skipping/into-the-past updates, signer subsets on/below/above the 1/3, trust-level and 2/3 thresholds, absent/nil/bad/foreign-chain votes, wrong or mis-powered trusted validators, unknown trusted heights, other revisions and chain ids, header-time and host-clock boundaries up to, at and past expiry, duplicates, conflicting headers, reordering; verdicts compared with TmLightModel"})
	register(&core.Profile{Name: "c07-tm-updates-crash", Property: "C07", Weight: 1, Fault: true, Run: func(c *core.Ctx) { runC07(c, true) },
		Doc: "same with host crash/restart between updates (before finalize, after finalize with the update block lost, after commit)"})
}

var c07ChainIDs = []string{"virtual-chn", "virtualchn-3", "virt.chain_x", "virtual-chn-12", "virtualchn-1"}

type c07run struct {
	c      *core.Ctx
	w      *world.World
	node   *world.Node
	chain  *tmchain.Chain // the chain of the current view (after an upgrade: successor, or predecessor for one step)
	name   string         // its chain id
	rev    uint64         // its revision
	client string         // the client's name on the host (fixed; the first chain id)
	pred   *tmchain.Chain // predecessor chain (previous revision) once the client was upgraded
	wild   bool
	m      *model.TmLightModel
	drift  time.Duration
	tp     time.Duration
	scale  time.Duration
	crash  bool
	steps  int
	step   int
	nAcc   int
	nMustR int
	nMustA int

	maxLatest model.TmHeight
	history   []*tmclient.Header // accepted client messages
	deadSteps int                // steps since the client expired
}

func runC07(c *core.Ctx, crashes bool) {
	ch := c.Ch
	w, err := world.NewWorld(ch, world.WorldConfig{ChainNames: chainNames[:1]})
	c.Check(err)
	c.W = w
	r := &c07run{c: c, w: w, node: w.Nodes[0], crash: crashes}

	// ---- client parameters from the tape
	var lvl tmclient.Fraction
	switch ch.Int(4) {
	case 0:
		lvl = tmclient.Fraction{Numerator: 1, Denominator: 3}
	case 1:
		lvl = tmclient.Fraction{Numerator: 1, Denominator: 2}
	case 2:
		lvl = tmclient.Fraction{Numerator: 2, Denominator: 3}
	default:
		q := uint64(ch.Range(3, 60))
		lo, hi := (q+2)/3, 2*q/3
		lvl = tmclient.Fraction{Numerator: lo + uint64(ch.Int(int(hi-lo)+1)), Denominator: q}
	}
	switch ch.Int(4) {
	case 0:
		r.tp = time.Duration(ch.Range(2, 59)) * time.Minute
	case 1:
		r.tp = time.Duration(ch.Range(1, 47)) * time.Hour
	case 2:
		r.tp = time.Duration(ch.Range(2, 13)) * 24 * time.Hour
	default:
		r.tp = time.Duration(ch.Range(2, 4)) * 7 * 24 * time.Hour
	}
	if ch.Bool(1, 2) {
		r.tp += time.Duration(ch.Int(1_000_000_000))
	}
	r.drift = time.Duration(ch.Range(1, 600)) * time.Second
	if ch.Bool(1, 2) {
		r.drift += time.Duration(ch.Int(1_000_000_000))
	}
	unbonding := r.tp + r.tp/2 + time.Second

	// ---- the virtual chain
	r.name = c07ChainIDs[ch.Int(len(c07ChainIDs))]
	r.rev = model.TmRevision(r.name)
	r.client = r.name
	wild := ch.Bool(1, 4)
	r.wild = wild
	div := ch.Range(20, 200)
	r.scale = r.tp / time.Duration(div)
	if r.scale < time.Second {
		r.scale = time.Second
	}
	r.chain = tmchain.New(tmchain.Config{
		ChainID: r.name, Seed: ch.Uint64(), MaxHeight: 200, Start: w.Base.Add(10 * time.Second),
		GapScale: r.scale, WildGaps: wild, MaxVals: 7, ChangePct: []int{8, 20, 45}[ch.Int(3)],
	})
	if got := clienttypes.ParseChainID(r.name); got != r.rev {
		c.Failf("revision of %q: model %d, tibc %d", r.name, r.rev, got)
	}
	h0 := int64(ch.Range(2, 12))
	b0 := r.chain.Block(h0)

	// host clock: a little after the creation header
	after := time.Duration(ch.Int(int(r.scale/time.Millisecond)+1)) * time.Millisecond
	if d := b0.Time.Add(after).Sub(w.TimeOn(r.node)); d > 0 {
		w.Tick(d)
	}
	cs := tmclient.NewClientState(r.name, lvl, r.tp, unbonding, r.drift,
		clienttypes.NewHeight(r.rev, uint64(h0)), commitmenttypes.GetSDKSpecs(), world.TibcPrefix, 0)
	c.Check(cs.Validate())
	cons, err := r.chain.ConsensusState(h0)
	c.Check(err)
	ctx := r.node.SetupCtx().WithBlockTime(w.TimeOn(r.node))
	c.Check(r.node.App.TIBCKeeper.ClientKeeper.CreateClient(ctx, r.name, cs, cons))
	var rs []string
	for _, rl := range w.Relayers {
		rs = append(rs, rl.Addr.String())
	}
	r.node.App.TIBCKeeper.ClientKeeper.RegisterRelayers(ctx, r.name, rs)
	_, err = w.Block(r.node, nil, world.NoCrash)
	c.Check(err)

	start := model.TmHeight{Rev: r.rev, H: uint64(h0)}
	r.m = model.NewTmLightModel(model.TmParams{
		ChainID: r.name, TrustNum: lvl.Numerator, TrustDen: lvl.Denominator, TrustingPeriod: r.tp, MaxClockDrift: r.drift,
	}, start, model.TmCons{Time: b0.Time, AppHash: b0.AppHash, NextValsHash: b0.NextVals.Hash()})
	r.maxLatest = start
	w.Log.Add("c07 setup chain=%s rev=%d h0=%d trust=%d/%d tp=%v drift=%v scale=%v wild=%v", r.name, r.rev, h0,
		lvl.Numerator, lvl.Denominator, r.tp, r.drift, r.scale, wild)

	r.steps = 35 + ch.Int(40)
	for r.step = 0; r.step < r.steps; r.step++ {
		c.Step("c07")
		r.oneStep()
		if r.deadSteps > 5 {
			break
		}
	}
	c.Nontrivial = r.nAcc >= 6 && r.nMustR >= 5
}

// ---------------------------------------------------------------- clock

// predictNow is the time the next block on the host will carry if the world
// clock is not moved before (mirrors World.Block's tick; the verdict never
// relies on it: it is computed from the block's real time afterwards).
func (r *c07run) predictNow() time.Time {
	tick := time.Second + time.Duration(1+(r.w.Blocks*37)%977)*time.Millisecond + 137*time.Nanosecond
	return r.w.TimeOn(r.node).Add(tick)
}

func (r *c07run) latestTime() time.Time { return r.m.States[r.m.Latest].Time }

// tickTo moves the world clock so that the next block carries `target` (if that
// lies ahead).  Unless allowExpire, the target is clamped to just before the
// client's expiry.
func (r *c07run) tickTo(target time.Time, allowExpire bool) {
	guard := []time.Duration{1, 1000, time.Second}[r.c.Ch.Int(3)]
	if !allowExpire {
		if lim := r.latestTime().Add(r.tp - guard); target.After(lim) {
			target = lim
			r.w.Stats.Inc("clock-clamped-before-expiry")
		}
	}
	if d := target.Sub(r.predictNow()); d > 0 {
		r.w.Tick(d)
	}
}

func (r *c07run) lateInRun() bool { return r.step*3 >= r.steps*2 }

// makeVisible moves the clock so that chain height h is (just) inside the
// drift window of the next block.
func (r *c07run) makeVisible(h int64) {
	ch := r.c.Ch
	mode := ch.Int(4)
	frac := ch.Int(1000)
	allow := r.lateInRun() && ch.Bool(1, 4)
	b := r.chain.Block(h)
	if b == nil {
		return
	}
	if b.Time.Before(r.predictNow().Add(r.drift)) {
		return
	}
	var slack time.Duration
	switch mode {
	case 0:
		slack = 1 // header time == now + drift - 1ns
	case 1:
		slack = 1 + r.drift*time.Duration(frac)/1000 // header still ahead of the host clock
	default:
		slack = r.drift + 1 + r.scale*time.Duration(frac)/500
	}
	r.tickTo(b.Time.Add(-r.drift).Add(slack), allow)
}

// ---------------------------------------------------------------- choosing

func (r *c07run) th(h uint64) clienttypes.Height { return clienttypes.NewHeight(r.rev, h) }

// heights lists the stored heights of the current view's revision (ascending).
func (r *c07run) heights() []model.TmHeight {
	var out []model.TmHeight
	for _, h := range r.m.Heights() {
		if h.Rev == r.rev {
			out = append(out, h)
		}
	}
	return out
}

// viewLatest is the greatest stored height of the current view's revision.
func (r *c07run) viewLatest() model.TmHeight {
	hs := r.heights()
	return hs[len(hs)-1]
}

// pickTrusted draws a stored height: mostly the latest, else any usable one.
func (r *c07run) pickTrusted(latestPermille int) model.TmHeight {
	ch := r.c.Ch
	hs := r.heights()
	useLatest := ch.Int(1000) < latestPermille
	i := ch.Int(len(hs))
	if useLatest {
		return r.viewLatest()
	}
	now := r.predictNow()
	var usable []model.TmHeight
	for _, h := range hs {
		if r.m.Usable(h, now) {
			usable = append(usable, h)
		}
	}
	if len(usable) > 0 {
		return usable[i%len(usable)]
	}
	return hs[i]
}

func (r *c07run) clampH(h int64) int64 {
	if h < 1 {
		return 1
	}
	if h > r.chain.Cfg.MaxHeight {
		return r.chain.Cfg.MaxHeight
	}
	return h
}

// base draws an honest (trusted, height) pair; adjacent with the given odds.
func (r *c07run) base(adjPermille int) (model.TmHeight, int64) {
	ch := r.c.Ch
	t := r.pickTrusted(650)
	adj := ch.Int(1000) < adjPermille
	k := int64(ch.Range(2, 14))
	if adj {
		k = 1
	}
	stored := func(x uint64) bool { _, ok := r.m.States[model.TmHeight{Rev: r.rev, H: x}]; return ok }
	if adj {
		// walk up a run of consecutive stored heights so that the target is new
		for n := 0; n < 300 && stored(t.H+1) && r.m.Usable(model.TmHeight{Rev: r.rev, H: t.H + 1}, r.predictNow()); n++ {
			t = model.TmHeight{Rev: r.rev, H: t.H + 1}
		}
	}
	h := r.clampH(int64(t.H) + k)
	for n := 0; !adj && n < 300 && stored(uint64(h)) && h < r.chain.Cfg.MaxHeight; n++ {
		h++
	}
	if ch.Bool(3, 4) {
		r.makeVisible(h)
	}
	return t, h
}

// ---- signer subsets by voting power

func cmp128(a int64, x uint64, b int64, y uint64) int { // a*x ? b*y (a,b >= 0)
	h1, l1 := bits.Mul64(uint64(a), x)
	h2, l2 := bits.Mul64(uint64(b), y)
	switch {
	case h1 != h2:
		if h1 < h2 {
			return -1
		}
		return 1
	case l1 != l2:
		if l1 < l2 {
			return -1
		}
		return 1
	}
	return 0
}

type c07subset struct {
	mask    int
	own, tr int64
}

// subsets enumerates signer subsets of own with their power in own and in trusted.
func c07Subsets(own, trusted *cmttypes.ValidatorSet) (subs []c07subset, ownTotal, trTotal int64) {
	n := len(own.Validators)
	if n > 10 {
		n = 10
	}
	op := make([]int64, n)
	tp := make([]int64, n)
	for i := 0; i < n; i++ {
		v := own.Validators[i]
		op[i] = v.VotingPower
		if trusted != nil {
			if _, tv := trusted.GetByAddress(v.Address); tv != nil {
				tp[i] = tv.VotingPower
			}
		}
	}
	for _, v := range own.Validators {
		ownTotal += v.VotingPower
	}
	if trusted != nil {
		for _, v := range trusted.Validators {
			trTotal += v.VotingPower
		}
	}
	for mask := 0; mask < 1<<n; mask++ {
		s := c07subset{mask: mask}
		for i := 0; i < n; i++ {
			if mask&(1<<i) != 0 {
				s.own += op[i]
				s.tr += tp[i]
			}
		}
		subs = append(subs, s)
	}
	return
}

// chooseSubset picks a signer subset for an objective; ok=false if none fits.
func (r *c07run) chooseSubset(obj int, own, trusted *cmttypes.ValidatorSet) (mask int, ok bool) {
	subs, oT, tT := c07Subsets(own, trusted)
	p, q := r.m.P.TrustNum, r.m.P.TrustDen
	ownOver := func(s c07subset) bool { return cmp128(s.own, 3, oT, 2) > 0 }
	best := -1
	better := func(i int, key func(c07subset) int64, max bool) {
		if best < 0 {
			best = i
			return
		}
		a, b := key(subs[i]), key(subs[best])
		if (max && a > b) || (!max && a < b) {
			best = i
		}
	}
	ownKey := func(s c07subset) int64 { return s.own }
	trKey := func(s c07subset) int64 { return s.tr }
	anyOwnOver := false
	for _, s := range subs {
		if ownOver(s) {
			anyOwnOver = true
		}
	}
	for i, s := range subs {
		switch obj {
		case 0: // own: greatest sum not over 2/3
			if !ownOver(s) {
				better(i, ownKey, true)
			}
		case 1: // own: least sum over 2/3
			if ownOver(s) {
				better(i, ownKey, false)
			}
		case 2: // trusted: greatest sum not over the trust level (own quorum kept if possible)
			if cmp128(s.tr, q, tT, p) <= 0 && (ownOver(s) || !anyOwnOver) {
				better(i, trKey, true)
			}
		case 3: // trusted: least sum over the trust level (own quorum kept if possible)
			if cmp128(s.tr, q, tT, p) > 0 && (ownOver(s) || !anyOwnOver) {
				better(i, trKey, false)
			}
		case 4: // own: greatest sum not over 1/3
			if cmp128(s.own, 3, oT, 1) <= 0 {
				better(i, ownKey, true)
			}
		case 5: // own: least sum over 1/3
			if cmp128(s.own, 3, oT, 1) > 0 {
				better(i, ownKey, false)
			}
		default: // any exact hit of a threshold
			if s.mask != 0 && (cmp128(s.own, 3, oT, 2) == 0 || cmp128(s.own, 3, oT, 1) == 0 || (tT > 0 && s.tr > 0 && cmp128(s.tr, q, tT, p) == 0)) {
				if best < 0 {
					best = i
				}
			}
		}
	}
	if best < 0 {
		return 0, false
	}
	return subs[best].mask, true
}

var c07Fill = []world.SignSpec{world.SignAbsent, world.SignNil, world.SignBadSig, world.SignOtherID}

func c07VoteName(s world.SignSpec) string {
	return [...]string{"commit", "absent", "nil", "badsig", "otherid"}[s]
}

// votesFor turns a signer mask into vote kinds; non-signers get `fill`.
func (r *c07run) votesFor(n, mask int, fill world.SignSpec) []world.SignSpec {
	out := make([]world.SignSpec, n)
	for i := range out {
		if i < 30 && mask&(1<<i) != 0 {
			out[i] = world.SignCommit
		} else {
			out[i] = fill
		}
	}
	return out
}

func (r *c07run) countVotes(votes []world.SignSpec) {
	for _, v := range votes {
		if v != world.SignCommit {
			r.w.Stats.Inc("vote-" + c07VoteName(v))
		}
	}
}

// forgedSet builds a made-up validator set: some members of `from` with
// redrawn powers plus up to two keys that never were validators.
func (r *c07run) forgedSet(from *cmttypes.ValidatorSet) *cmttypes.ValidatorSet {
	ch := r.c.Ch
	var vs []*cmttypes.Validator
	keepAll := ch.Bool(1, 2)
	style := ch.Int(3)
	for i, v := range from.Validators {
		keep := ch.Bool(2, 3)
		pw := int64(ch.Range(1, 1000))
		if i >= 7 || !(keepAll || keep) {
			continue
		}
		p := v.VotingPower
		switch style {
		case 1:
			p = 1
		case 2:
			p = pw
		}
		vs = append(vs, cmttypes.NewValidator(v.PubKey, p))
	}
	extra := ch.Int(3)
	big := ch.Bool(1, 2)
	var sum int64
	for _, v := range vs {
		sum += v.VotingPower
	}
	for i := 0; i < extra || len(vs) == 0; i++ {
		p := int64(1 + i)
		if big && sum > 0 && sum < 1<<55 {
			p = 2*sum + int64(i)
		}
		vs = append(vs, cmttypes.NewValidator(r.chain.ForgerKey(i).PubKey(), p))
	}
	return cmttypes.NewValidatorSet(vs)
}

// ---------------------------------------------------------------- one step

func (r *c07run) oneStep() {
	ch := r.c.Ch
	w := r.w
	if !r.m.Usable(r.m.Latest, r.predictNow()) {
		r.deadSteps++
	}
	if r.pred != nil && ch.Bool(2, 5) {
		// this step looks at the predecessor chain: updates (back-fills and forward ones) in the
		// previous revision, trusted on the states of that revision the client still stores
		succ, name, rev := r.chain, r.name, r.rev
		r.chain, r.name, r.rev = r.pred, r.pred.Cfg.ChainID, model.TmRevision(r.pred.Cfg.ChainID)
		w.Stats.Inc("step-in-previous-revision")
		defer func() { r.chain, r.name, r.rev = succ, name, rev }()
	}
	//                  0   1   2   3   4   5   6   7   8   9  10  11  12  13 14
	act := ch.Pick([]int{16, 14, 8, 12, 7, 6, 5, 4, 7, 6, 3, 6, 5, 4, 3})
	switch act {
	case 14: // governance upgrades the client to the next revision of the chain (once, not at the start)
		if r.pred != nil || r.step*4 < r.steps {
			t, h := r.base(300)
			r.submitReq("skip", tmchain.HeaderReq{Height: h, TrustedHeight: r.th(t.H)})
			return
		}
		r.upgrade()
	case 0: // honest adjacent
		t, h := r.base(1000)
		r.submitReq("adjacent", tmchain.HeaderReq{Height: h, TrustedHeight: r.th(t.H)})
	case 1: // honest skipping
		t, h := r.base(0)
		r.submitReq("skip", tmchain.HeaderReq{Height: h, TrustedHeight: r.th(t.H)})
	case 2: // into the past, between two stored states
		hs := r.heights()
		i := ch.Int(len(hs))
		off := ch.Int(1 << 20)
		found := false
		for k := 0; k < len(hs)-1; k++ {
			a, b := hs[(i+k)%(len(hs)-1)], hs[(i+k)%(len(hs)-1)+1]
			if b.H-a.H >= 2 {
				h := int64(a.H) + 1 + int64(off)%int64(b.H-a.H-1)
				r.submitReq("into-past", tmchain.HeaderReq{Height: h, TrustedHeight: r.th(a.H)})
				found = true
				break
			}
		}
		if !found {
			t, h := r.base(300)
			r.submitReq("skip", tmchain.HeaderReq{Height: h, TrustedHeight: r.th(t.H)})
		}
	case 3: // signer subsets at the thresholds
		t, h := r.base(250)
		obj := ch.Int(7)
		fill := c07Fill[ch.Pick([]int{70, 12, 9, 9})]
		forged := ch.Bool(1, 6)
		req := tmchain.HeaderReq{Height: h, TrustedHeight: r.th(t.H)}
		trusted := r.chain.TrustedSetOf(int64(t.H), tmchain.TrustedRight, 0)
		if forged {
			req.OwnSet = r.forgedSet(trusted)
			w.Stats.Inc("forged-own-set")
		}
		own := r.chain.OwnSetOf(req)
		mask, ok := r.chooseSubset(obj, own, trusted)
		if !ok {
			mask = int(ch.Uint64() & 0x3ff)
		} else {
			ch.Uint64()
		}
		req.Votes = r.votesFor(len(own.Validators), mask, fill)
		r.submitReq(fmt.Sprintf("threshold-%d", obj), req)
	case 4: // random vote kinds
		t, h := r.base(400)
		req := tmchain.HeaderReq{Height: h, TrustedHeight: r.th(t.H)}
		own := r.chain.OwnSetOf(req)
		votes := make([]world.SignSpec, len(own.Validators))
		for i := range votes {
			votes[i] = world.SignSpec(ch.Pick([]int{62, 14, 10, 7, 7}))
		}
		req.Votes = votes
		r.submitReq("votes", req)
	case 5: // wrong trusted validators
		t, h := r.base(300)
		mode := []tmchain.TrustedMode{tmchain.TrustedWrongSet, tmchain.TrustedWrongPowers, tmchain.TrustedLieTotal, tmchain.TrustedCurrentVals}[ch.Int(4)]
		r.submitReq("trusted-"+mode.String(), tmchain.HeaderReq{Height: h, TrustedHeight: r.th(t.H), TrustedMode: mode})
	case 6: // unknown / odd trusted height
		t, h := r.base(300)
		kind := ch.Int(6)
		off := int64(ch.Range(1, 6))
		req := tmchain.HeaderReq{Height: h}
		switch kind {
		case 0, 1: // a height below the header that has no stored state (or has: then it is simply valid)
			x := r.clampH(h - off)
			req.TrustedHeight = r.th(uint64(x))
		case 2: // other revision, stored height number
			req.TrustedHeight = clienttypes.NewHeight(r.rev+1, t.H)
			req.TrustedOf = int64(t.H)
		case 3: // trusted height == header height
			req.TrustedHeight = r.th(uint64(h))
		case 4: // trusted height above the header
			req.TrustedHeight = r.th(uint64(h + off))
		default: // height 0
			req.TrustedHeight = r.th(0)
			req.TrustedOf = int64(t.H)
		}
		r.submitReq(fmt.Sprintf("trusted-height-%d", kind), req)
	case 7: // other revision / chain id in the header
		t, h := r.base(300)
		kind := ch.Int(5)
		req := tmchain.HeaderReq{Height: h, TrustedHeight: r.th(t.H)}
		switch kind {
		case 0: // next revision, trusted height of the client's revision
			req.HeaderChainID = c07WithRev(r.name, r.rev+1)
		case 1: // next revision, trusted height claims it too
			req.HeaderChainID = c07WithRev(r.name, r.rev+1)
			req.TrustedHeight = clienttypes.NewHeight(r.rev+1, t.H)
			req.TrustedOf = int64(t.H)
		case 2: // previous revision (or a first one for a plain id)
			nr := r.rev + 2
			if r.rev > 1 {
				nr = r.rev - 1
			}
			req.HeaderChainID = c07WithRev(r.name, nr)
			req.TrustedHeight = clienttypes.NewHeight(nr, t.H)
			req.TrustedOf = int64(t.H)
		case 3: // another chain, same revision number
			req.HeaderChainID = c07WithRev("otherchain-1", r.rev)
		default: // another chain id that only differs in case
			req.HeaderChainID = strings.ToUpper(r.name[:1]) + r.name[1:]
		}
		r.submitReq(fmt.Sprintf("chain-id-%d", kind), req)
	case 8: // header time perturbations (forged but properly signed headers)
		t, h := r.base(400)
		kind := ch.Int(8)
		far := time.Duration(ch.Range(1, 100000)) * time.Millisecond
		ts := r.m.States[t].Time
		req := tmchain.HeaderReq{Height: h, TrustedHeight: r.th(t.H)}
		var nt time.Time
		switch kind {
		case 0:
			nt = ts
		case 1:
			nt = ts.Add(-far)
		case 2:
			nt = ts.Add(1)
		case 3:
			nt = r.predictNow().Add(r.drift)
		case 4:
			nt = r.predictNow().Add(r.drift - 1)
		case 5:
			nt = r.predictNow().Add(r.drift + 1)
		case 6:
			nt = r.predictNow().Add(r.drift + far)
		default:
			nt = r.predictNow().Add(-far)
		}
		req.Time = &nt
		r.submitReq(fmt.Sprintf("time-%d", kind), req)
	case 9: // structural perturbations
		t, h := r.base(300)
		kind := ch.Int(9)
		req := tmchain.HeaderReq{Height: h, TrustedHeight: r.th(t.H)}
		switch kind {
		case 0:
			req.ValsHashMismatch = true
		case 1:
			req.SuppliedSet = r.chain.TrustedSetOf(h, tmchain.TrustedWrongSet, uint64(h))
		case 2:
			req.CommitOtherBlock = true
		case 3:
			req.CommitHeightOff = 1
		case 4, 5:
			req.OwnSet = r.forgedSet(r.chain.TrustedSetOf(int64(t.H), tmchain.TrustedRight, 0))
			w.Stats.Inc("forged-own-set")
		case 6:
			req.LieOwnTotal = true
		case 7: // forged app hash and next validators, fully signed: valid by the rule
			req.AppHash = bytes.Repeat([]byte{byte(h)}, 32)
			req.NextValsHash = bytes.Repeat([]byte{byte(h + 1)}, 32)
		default:
			req.CommitHeightOff = -1
		}
		r.submitReq(fmt.Sprintf("struct-%d", kind), req)
	case 10: // plain clock move
		d := r.scale * time.Duration(ch.Range(1, 3000)) / 1000
		r.tickTo(r.predictNow().Add(d), r.lateInRun() && ch.Bool(1, 3))
		w.Stats.Inc("clock-advance")
		w.Log.Add("c07 clock +%v", d)
		r.c.Op("clock")
	case 11: // approach / hit / pass an expiry, then an honest update at that very block
		kind := ch.Pick([]int{4, 3, 3, 2, 2})
		older := ch.Bool(1, 3)
		delta := []time.Duration{1, 999, time.Millisecond, time.Second, r.drift}[ch.Int(5)]
		gate := r.lateInRun() || ch.Bool(1, 8)
		t := r.viewLatest()
		hs := r.heights()
		i := ch.Int(len(hs))
		adj := ch.Bool(2, 3)
		span := int64(ch.Range(1, 6))
		if !gate {
			// too early to play with the client's life: an honest update instead
			t2, h2 := r.base(300)
			r.submitReq("skip", tmchain.HeaderReq{Height: h2, TrustedHeight: r.th(t2.H)})
			return
		}
		if older {
			t = hs[i]
		}
		exp := r.m.States[t].Time.Add(r.tp)
		var target time.Time
		switch kind {
		case 0, 3:
			target = exp.Add(-delta)
		case 1:
			target = exp
		default:
			target = exp.Add(delta)
		}
		r.tickTo(target, gate && (kind == 1 || kind == 2 || kind == 4))
		w.Stats.Inc(fmt.Sprintf("clock-expiry-%d", kind))
		// update trusting t, to a height that is visible now
		if adj {
			span = 1
		}
		h := r.clampH(int64(t.H) + span)
		if vis := r.chain.HeadBefore(r.predictNow().Add(r.drift)); vis > int64(t.H) && h > vis {
			h = vis
		}
		r.submitReq(fmt.Sprintf("at-expiry-%d", kind), tmchain.HeaderReq{Height: h, TrustedHeight: r.th(t.H)})
	case 12: // duplicates, conflicting headers, reordering
		kind := ch.Int(4)
		i := ch.Int(1 << 20)
		switch {
		case kind == 0 && len(r.history) > 0: // exact resubmission
			r.submitHeader("duplicate", r.history[i%len(r.history)])
		case kind == 1: // conflicting header for a stored height
			hs := r.heights()
			if len(hs) >= 2 {
				k := 1 + i%(len(hs)-1)
				a := hs[ch.Int(k)]
				r.submitReq("conflict", tmchain.HeaderReq{Height: int64(hs[k].H), TrustedHeight: r.th(a.H),
					AppHash: bytes.Repeat([]byte{0xcf}, 32)})
			} else {
				ch.Int(1)
				t, h := r.base(500)
				r.submitReq("skip", tmchain.HeaderReq{Height: h, TrustedHeight: r.th(t.H)})
			}
		default: // two updates built against the same trusted height, newer one first
			t := r.pickTrusted(800)
			h2 := r.clampH(int64(t.H) + int64(ch.Range(3, 10)))
			off := int64(ch.Int(16))
			h1 := h2
			if span := h2 - int64(t.H); span >= 2 {
				h1 = int64(t.H) + 1 + off%(span-1)
			}
			r.makeVisible(h2)
			r.submitReq("reorder-newer", tmchain.HeaderReq{Height: h2, TrustedHeight: r.th(t.H)})
			r.submitReq("reorder-older", tmchain.HeaderReq{Height: h1, TrustedHeight: r.th(t.H)})
		}
	default: // crash / restart, or an empty block
		if r.crash {
			pt := []world.CrashPoint{world.CrashBeforeFinalize, world.CrashAfterFinalize, world.CrashAfterCommit}[ch.Int(3)]
			withTx := ch.Bool(1, 2)
			var reqs []*world.TxReq
			var u *model.TmUpdate
			var hdr *tmclient.Header
			if withTx {
				t, h := r.base(500)
				var err error
				hdr, err = r.chain.Header(tmchain.HeaderReq{Height: h, TrustedHeight: r.th(t.H)})
				r.c.Check(err)
				u, err = model.TmExtract(hdr)
				r.c.Check(err)
				msg, err := clienttypes.NewMsgUpdateClient(r.client, hdr, w.Relayers[0].Addr)
				r.c.Check(err)
				reqs = []*world.TxReq{{Signer: w.Relayers[0], Msgs: []sdk.Msg{msg}, Label: "update(crash)"}}
			}
			before := r.node.DumpMap("tibc")
			rec, err := w.Block(r.node, reqs, pt)
			r.c.Check(err)
			w.Stats.Inc("crash")
			r.c.Check(r.node.Restart())
			if pt == world.CrashAfterCommit && withTx && rec != nil && len(rec.Results) == 1 {
				// the block is durable: the update counts like any other
				r.judge("crash-after-commit", hdr, u, rec.Results[0], before, rec.Time)
			} else if withTx {
				// the block never happened
				if d := world.DiffDumps(before, r.node.DumpMap("tibc")); len(d) > 0 {
					r.c.Violate("C07/lost-block-left-trace", "block with an update was lost in a crash (%v) but the tibc store changed: %s", pt, diffSummary(d, 4))
				}
				r.c.Op("crash:lost")
			}
			r.checkLatest("after restart")
		} else {
			_, err := w.Block(r.node, nil, world.NoCrash)
			r.c.Check(err)
			r.c.Op("empty")
		}
	}
}

// upgrade replaces the client state by one for the next revision of the chain (a fresh
// virtual chain with its own validators and heights starting over), as a governance
// MsgUpgradeClient does; trusted states of the old revision stay in the store.
func (r *c07run) upgrade() {
	ch := r.c.Ch
	w := r.w
	old, found := r.node.ClientState(r.client)
	if !found {
		return
	}
	ocs := old.(*tmclient.ClientState)
	newID := c07WithRev(r.name, r.rev+1)
	start := r.predictNow().Add(-time.Duration(ch.Int(int(r.scale/time.Millisecond)+1)) * time.Millisecond)
	succ := tmchain.New(tmchain.Config{
		ChainID: newID, Seed: ch.Uint64(), MaxHeight: 200, Start: start,
		GapScale: r.scale, WildGaps: r.wild, MaxVals: 7, ChangePct: []int{8, 20, 45}[ch.Int(3)],
	})
	h0 := int64(ch.Range(1, 3))
	b0 := succ.Block(h0)
	cs := tmclient.NewClientState(newID, ocs.TrustLevel, ocs.TrustingPeriod, ocs.UnbondingPeriod, ocs.MaxClockDrift,
		clienttypes.NewHeight(r.rev+1, uint64(h0)), commitmenttypes.GetSDKSpecs(), world.TibcPrefix, 0)
	r.c.Check(cs.Validate())
	cons, err := succ.ConsensusState(h0)
	r.c.Check(err)
	ctx := r.node.SetupCtx().WithBlockTime(w.TimeOn(r.node))
	r.c.Check(r.node.App.TIBCKeeper.ClientKeeper.UpgradeClient(ctx, r.client, cs, cons))
	_, err = w.Block(r.node, nil, world.NoCrash)
	r.c.Check(err)
	nh := model.TmHeight{Rev: r.rev + 1, H: uint64(h0)}
	r.m.Upgrade(newID, nh, model.TmCons{Time: b0.Time, AppHash: b0.AppHash, NextValsHash: b0.NextVals.Hash()})
	r.pred, r.chain, r.name, r.rev = r.chain, succ, newID, r.rev+1
	w.Stats.Inc("client-upgraded-to-next-revision")
	w.Log.Add("c07 client %s upgraded to chain id %s at %s", r.client, newID, nh)
	r.c.Op("upgrade")
	r.checkLatest("after upgrade")
}

// c07WithRev returns chain id `id` carrying revision number rev.
func c07WithRev(id string, rev uint64) string {
	if model.TmRevision(id) != 0 {
		id = id[:strings.LastIndex(id, "-")]
	}
	if rev == 0 {
		return id
	}
	return fmt.Sprintf("%s-%d", id, rev)
}

// ---------------------------------------------------------------- submit + oracles

func (r *c07run) submitReq(tag string, req tmchain.HeaderReq) bool {
	if req.Votes != nil {
		r.countVotes(req.Votes)
	}
	hdr, err := r.chain.Header(req)
	r.c.Check(err)
	return r.submitHeader(tag, hdr)
}

func (r *c07run) realLatest() model.TmHeight {
	cs, ok := r.node.ClientState(r.client)
	if !ok {
		r.c.Violate("C07/client-vanished", "client %s no longer exists on %s", r.client, r.node.Name)
		return model.TmHeight{}
	}
	h := cs.GetLatestHeight()
	return model.TmHeight{Rev: h.GetRevisionNumber(), H: h.GetRevisionHeight()}
}

func (r *c07run) checkLatest(when string) model.TmHeight {
	l := r.realLatest()
	if l.Less(r.maxLatest) {
		r.c.Violate("C07/latest-height-decreased", "%s: client latest height %s is below an earlier latest height %s", when, l, r.maxLatest)
	}
	if r.maxLatest.Less(l) {
		r.maxLatest = l
	}
	return l
}

func (r *c07run) submitHeader(tag string, hdr *tmclient.Header) bool {
	w := r.w
	u, err := model.TmExtract(hdr)
	r.c.Check(err)
	msg, err := clienttypes.NewMsgUpdateClient(r.client, hdr, w.Relayers[0].Addr)
	r.c.Check(err)
	before := r.node.DumpMap("tibc")
	res, err := w.One(r.node, &world.TxReq{Signer: w.Relayers[0], Msgs: []sdk.Msg{msg}, Label: "update(" + tag + ")"})
	r.c.Check(err)
	return r.judge(tag, hdr, u, res, before, r.node.TimeAt(res.Height))
}

// judge compares the outcome of an executed update tx with the model.
func (r *c07run) judge(tag string, hdr *tmclient.Header, u *model.TmUpdate, res *world.TxResult, before map[string]string, now time.Time) bool {
	w := r.w
	c := r.c
	prevLatest := r.m.Latest
	v := r.m.Verdict(u, now)
	accepted := res.OK()
	w.Stats.Inc("c07-" + tag)
	w.Log.Add("  c07 %s h=%s trusted=%s hdrtime=%d now=%d verdict=%s code=%d", tag, u.Height, u.TrustedHeight, u.Time.UnixNano(), now.UnixNano(), v, res.Code)
	out := "rej"
	if accepted {
		out = "acc"
	}
	switch v.Kind {
	case model.TmAccept:
		r.nMustA++
		w.Stats.Inc("verdict-accept")
	case model.TmReject:
		r.nMustR++
		w.Stats.Inc("verdict-reject-" + v.Reason)
		for _, f := range v.Failed {
			w.Stats.Inc("failed-" + f)
		}
	default:
		w.Stats.Inc("verdict-open-" + v.Reason + "-" + out)
	}
	c.Op(strings.SplitN(tag, "-", 2)[0] + ":" + []string{"A", "R", "U"}[v.Kind] + out)
	if v.ExactThreshold {
		w.Stats.Inc("probe-exact-threshold")
	}
	if v.NowEqExpiry {
		w.Stats.Inc("probe-now-eq-expiry")
	}
	if v.TimeEqDrift {
		w.Stats.Inc("probe-time-eq-drift")
	}
	if v.ClientExpired {
		w.Stats.Inc("probe-expired")
	} else if v.Kind == model.TmReject && v.Reason == model.TmRTrustedExpired {
		w.Stats.Inc("probe-trusted-expired-client-active")
	}
	if v.BadSigPresent && v.Kind == model.TmReject {
		w.Stats.Inc("probe-badsig-and-below-threshold")
	}

	shape := "skipping"
	if v.Adjacent {
		shape = "adjacent"
	}
	if u.Height.Less(prevLatest) {
		shape += "-into-past"
	}
	desc := fmt.Sprintf("update(%s) of client %s: header %s chain-id %q time %s, trusted height %s, submitted at host time %s (trust level %d/%d, trusting period %v, drift %v); own signed %v of %v, trusted signed %v of %v",
		tag, r.client, u.Height, u.ChainID, u.Time.UTC().Format(time.RFC3339Nano), u.TrustedHeight, now.UTC().Format(time.RFC3339Nano),
		r.m.P.TrustNum, r.m.P.TrustDen, r.tp, r.drift, v.OwnSigned, v.OwnTotal, v.TrustSigned, v.TrustTotal)

	// ---- verdict equality
	if accepted && v.Kind == model.TmReject {
		c.Violate("C07/accepted-invalid/"+v.Reason, "%s was ACCEPTED but the rule forbids it: %v", desc, v.Failed)
	}
	if !accepted && v.Kind == model.TmAccept {
		c.Violate("C07/rejected-valid/"+shape, "%s was REJECTED (code %d: %s) but every condition of the rule holds", desc, res.Code, world.Short(res.Log, 200))
	}

	realLatest := r.realLatest()
	if accepted {
		r.nAcc++
		// ---- state after acceptance
		cons, ok := r.node.ConsensusState(r.client, clienttypes.NewHeight(u.Height.Rev, u.Height.H))
		want := u.Cons()
		var got model.TmCons
		if ok {
			tc, isTm := cons.(*tmclient.ConsensusState)
			if !isTm {
				c.Violate("C07/state-after-accept/type", "%s accepted, consensus state has type %T", desc, cons)
			} else {
				got = model.TmCons{Time: tc.Timestamp, AppHash: tc.Root.Hash, NextValsHash: tc.NextValidatorsHash}
			}
		}
		old, hadOld := r.m.States[u.Height]
		conflict := v.HeightStored && !v.SameAsStored
		switch {
		case !ok:
			c.Violate("C07/state-after-accept/missing", "%s accepted, but no consensus state is stored for %s", desc, u.Height)
		case conflict && hadOld && got.Equal(old):
			// a conflicting header for a stored height: keeping the old state is not ruled out
			w.Stats.Inc("conflict-kept-old")
		case !got.Time.Equal(want.Time):
			c.Violate("C07/state-after-accept/time", "%s accepted, stored timestamp %s != header time %s", desc, got.Time.UTC().Format(time.RFC3339Nano), want.Time.UTC().Format(time.RFC3339Nano))
		case !bytes.Equal(got.AppHash, want.AppHash):
			c.Violate("C07/state-after-accept/app-hash", "%s accepted, stored root %x != header app hash %x", desc, got.AppHash, want.AppHash)
		case !bytes.Equal(got.NextValsHash, want.NextValsHash):
			c.Violate("C07/state-after-accept/next-validators-hash", "%s accepted, stored next validators hash %x != header's %x", desc, got.NextValsHash, want.NextValsHash)
		default:
			if conflict {
				w.Stats.Inc("conflict-overwrote")
			}
		}
		wantLatest := prevLatest
		if wantLatest.Less(u.Height) {
			wantLatest = u.Height
		}
		if realLatest != wantLatest {
			c.Violate("C07/state-after-accept/latest-height", "%s accepted, client latest height is %s, expected max(%s, %s) = %s", desc, realLatest, prevLatest, u.Height, wantLatest)
		}
		// the model follows the client
		r.m.Apply(u)
		if ok {
			r.m.States[u.Height] = got // identical to the header's unless a violation was just reported (or a conflict kept the old state)
		}
		if u.Height.Less(prevLatest) && !v.HeightStored {
			w.Stats.Inc("probe-update-into-past")
		}
		if u.Height.Rev < prevLatest.Rev {
			w.Stats.Inc("probe-accepted-update-in-previous-revision")
			if u.Height.H > prevLatest.H {
				w.Stats.Inc("probe-previous-revision-update-with-greater-height-number")
			}
		}
		if !v.Adjacent && !bytes.Equal(u.TrustedHash, u.OwnHash) {
			w.Stats.Inc("probe-skipping-valset-change")
		}
		if v.HeightStored && v.SameAsStored {
			w.Stats.Inc("duplicate-accepted")
		}
		r.history = append(r.history, hdr)
	} else {
		// ---- nothing changes on rejection
		if d := world.DiffDumps(before, r.node.DumpMap("tibc")); len(d) > 0 {
			c.Violate("C07/rejected-but-state-changed", "%s was rejected (code %d: %s) but the tibc store changed: %s", desc, res.Code, world.Short(res.Log, 100), diffSummary(d, 4))
		}
		if realLatest != prevLatest {
			c.Violate("C07/rejected-but-state-changed/latest-height", "%s was rejected but client latest height moved %s -> %s", desc, prevLatest, realLatest)
		}
		if v.Kind == model.TmReject && v.Reason == model.TmRTrustPower && !v.Adjacent {
			w.Stats.Inc("probe-skip-rejected-trust-level")
		}
	}
	r.checkLatest("after " + tag)
	return accepted
}
