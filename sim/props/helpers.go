package props

import (
	"sort"

	"tibcsim/model"
)

// sortedPKeys returns the keys of a packet-keyed map in a deterministic order.
func sortedPKeys[V any](m map[model.PKey]V) []model.PKey {
	ks := make([]model.PKey, 0, len(m))
	for k := range m {
		ks = append(ks, k)
	}
	sort.Slice(ks, func(i, j int) bool {
		if ks[i].Src != ks[j].Src {
			return ks[i].Src < ks[j].Src
		}
		if ks[i].Dst != ks[j].Dst {
			return ks[i].Dst < ks[j].Dst
		}
		return ks[i].Seq < ks[j].Seq
	})
	return ks
}

func sortedPairs[V any](m map[model.Pair]V) []model.Pair {
	ks := make([]model.Pair, 0, len(m))
	for k := range m {
		ks = append(ks, k)
	}
	sort.Slice(ks, func(i, j int) bool {
		if ks[i].Src != ks[j].Src {
			return ks[i].Src < ks[j].Src
		}
		return ks[i].Dst < ks[j].Dst
	})
	return ks
}
