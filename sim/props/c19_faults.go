package props

import (
	packettypes "github.com/bianjieai/tibc-go/modules/tibc/core/04-packet/types"

	"tibcsim/core"
	"tibcsim/model"
	"tibcsim/scen"
	"tibcsim/world"
)

// C19, fault-injecting configuration (hook H2): the k-th call of a token-keeper
// method made by a transfer application returns an error, so that a receive
// fails *after partial writes* inside the application callback.  A failing tx
// must still leave no trace, and a receive answered with an error
// acknowledgement must leave the token state untouched.

func init() {
	register(&core.Profile{Name: "c19-keeper-faults", Property: "C19", Weight: 2, Fault: true, Run: runC19Faults,
		Doc: "2-3 chains, single-tx blocks; before a packet is delivered to its destination (or an ack to its source, or a transfer is sent) a cooperative fault is armed on that chain: the first or second call of IssueDenom / MintNFT / TransferOwner / BurnNFT / IssueMT / MintMT / BurnMT made by the transfer module fails"})
}

var c19FaultMethods = []string{"IssueDenom", "MintNFT", "TransferOwner", "BurnNFT", "IssueMT", "MintMT", "BurnMT", "MtTransferOwner"}

func runC19Faults(c *core.Ctx) {
	ch := c.Ch
	world.DisarmKeeperFaults()
	defer world.DisarmKeeperFaults()
	nChains := ch.Range(2, 3)
	w, e := buildTokenWorld(c, nChains)
	e.DumpStores = TokenStores
	uni := scen.DefaultUniverse()
	uni.BadReceiverPct = 5
	e.SeedTokens(uni, 3)
	views := map[string]string{}
	fired, errAcked := 0, 0
	var current *world.KeeperFault

	e.OnUserTx = func(a *scen.UserAct, n *world.Node, r *world.TxResult, before map[string]string) {
		if !r.OK() {
			noTraceOnFailure(c, "C19/"+firstTok(a.Kind), n, r, before, a.Kind)
		}
	}
	e.OnRelayTx = func(s *scen.Sent, n *world.Node, r *world.TxResult, before map[string]string) {
		kind := "update"
		if s.Item != nil {
			kind = []string{"recv", "ack", "recv-clean"}[s.Item.Kind]
		}
		if !r.OK() {
			noTraceOnFailure(c, "C19/"+kind, n, r, before, kind)
			return
		}
		if kind != "recv" {
			return
		}
		for _, ev := range world.ParsePacketEvents(r.Events) {
			if ev.Type != packettypes.EventTypeWriteAck || ev.Packet.DestinationChain != n.Name {
				continue
			}
			if succ, ok := IsSuccessAck(ev.Ack); !ok || succ {
				continue
			}
			errAcked++
			injected := current != nil && current.Fired > 0 && current.Chain == n.Name
			if injected {
				w.Stats.Inc("probe-error-ack-after-injected-fault")
			}
			if now := tokenView(n); now != views[n.Name] {
				sig := "C19/error-ack-token-effects/" + ev.Packet.Port
				if injected {
					sig += "/after-keeper-fault-" + current.Method
				}
				c.Violate(sig, "%s answered %s with an error acknowledgement but its token state changed (injected fault: %v)\nbefore:\n%s\nafter:\n%s",
					n.Name, model.KeyOf(ev.Packet), injected, views[n.Name], now)
			}
		}
	}

	steps := 60 + ch.Int(80)
	for i := 0; i < steps; i++ {
		c.Step("c19f")
		for _, n := range w.Nodes {
			views[n.Name] = tokenView(n)
		}
		world.DisarmKeeperFaults()
		current = nil
		switch ch.Pick([]int{30, 25, 45}) {
		case 0:
			e.RandomUserOp(w.Nodes[ch.Int(len(w.Nodes))], uni)
		case 1:
			if it := pickPending(c, e); it != nil {
				e.Deliver(it, w.Relayers[ch.Int(2)])
			}
		case 2: // delivery (or a user send) under an armed fault
			it := pickPending(c, e)
			m := c19FaultMethods[ch.Int(len(c19FaultMethods))]
			skip := ch.Int(2)
			if it != nil && ch.Bool(4, 5) {
				s := e.Prepare(it, w.Relayers[0]) // client update first: the fault must hit the application callback
				if s == nil {
					continue
				}
				for _, n := range w.Nodes {
					views[n.Name] = tokenView(n)
				}
				current = world.ArmKeeperFault(&world.KeeperFault{Chain: it.Target, Method: m, Skip: skip})
				e.Submit(s)
			} else {
				n := w.Nodes[ch.Int(len(w.Nodes))]
				current = world.ArmKeeperFault(&world.KeeperFault{Chain: n.Name, Method: m, Skip: skip})
				e.RandomUserOp(n, uni)
			}
			if current.Fired > 0 {
				fired++
				w.Stats.Inc("keeper-fault-" + current.Method)
			}
		}
	}
	w.Stats.Add("keeper-faults-fired", fired)
	c.Nontrivial = fired >= 3
}
