package props

import (
	"bytes"
	"fmt"
	"strings"

	"github.com/cosmos/gogoproto/proto"

	nfttransfer "github.com/bianjieai/tibc-go/modules/tibc/apps/nft_transfer/types"
	clienttypes "github.com/bianjieai/tibc-go/modules/tibc/core/02-client/types"
	packettypes "github.com/bianjieai/tibc-go/modules/tibc/core/04-packet/types"
	routingtypes "github.com/bianjieai/tibc-go/modules/tibc/core/26-routing/types"

	"tibcsim/core"
	"tibcsim/scen"
	"tibcsim/world"
)

// C16: genesis export and re-import preserve all protocol state.
//
// At a seeded point a chain X is exported and a shadow X' is started from the
// export on a fresh disk.  (1) Immediately the tibc / NFT / MT stores and the
// TIBC gRPC queries must agree.  (2) From then on both get the same blocks
// (same raw txs, same times): per-tx code, codespace and events must be
// equal and the stores must stay equal.

func init() {
	register(&core.Profile{Name: "c16-export-import", Property: "C16", Weight: 3, Run: runC16,
		Doc: "2-3 chains with NFT/MT traffic in all stages (pending commitments, receipts, acks, cleans, relay traffic, voucher classes, several consensus states per client, relayer registry, rules); at a seeded point one chain is exported and re-imported into a shadow that is fed the same later blocks, including replays of old messages"})
}

// ExtraClientSetups lets light-client model files add BSC / ETH clients with
// some history to the chain that will be exported.
var ExtraClientSetups []func(c *core.Ctx, w *world.World, n *world.Node)

var c16Stores = []string{"tibc", "NFT", "MT"}

func keyClass(k string) string {
	switch {
	case strings.HasPrefix(k, "NFT|"), strings.HasPrefix(k, "MT|"):
		return "class-trace"
	case strings.Contains(k, "|clean/"):
		return "clean-point"
	case strings.Contains(k, "|maxAckSeq/"):
		return "max-ack-seq"
	case strings.Contains(k, "iterateConsensusStates"):
		return "tm-iteration-key"
	case strings.Contains(k, "/processedTime"):
		return "processed-time"
	case strings.Contains(k, "/consensusStates/"):
		return "consensus-state"
	case strings.Contains(k, "/clientState"):
		return "client-state"
	case strings.Contains(k, "|commitments/"):
		return "commitment"
	case strings.Contains(k, "|receipts/"):
		return "receipt"
	case strings.Contains(k, "|acks/"):
		return "ack"
	case strings.Contains(k, "nextSequenceSend"):
		return "send-sequence"
	case strings.Contains(k, "relayers"):
		return "relayers"
	case strings.Contains(k, "routing"), strings.Contains(k, "rules"):
		return "routing-rules"
	case strings.Contains(k, "|clients/"):
		// light-client specific metadata: name the client type by its key words
		for _, w := range []string{"recentSingers", "recentSigners", "pendingValidators", "headerIndex", "consensusRoot", "ethHeaderIndex", "ethRoot"} {
			if strings.Contains(k, w) {
				return "client-metadata-" + w
			}
		}
		return "client-metadata"
	}
	return "other"
}

func clientTypeOfKey(n *world.Node, k string) string {
	// tibc|clients/<name>/...
	i := strings.Index(k, "|clients/")
	if i < 0 {
		return ""
	}
	rest := k[i+len("|clients/"):]
	j := strings.Index(rest, "/")
	if j < 0 {
		return ""
	}
	if cs, ok := n.ClientState(rest[:j]); ok {
		return cs.ClientType()
	}
	return ""
}

type shadowObs struct {
	c        *core.Ctx
	orig, sh *world.Node
	blocks   int
	patched  int
}

// patch makes the shadow's stores equal to the original's for the given keys
// (only after the difference was reported as a known finding) so that the rest
// of the run keeps comparing like with like.
func (o *shadowObs) patch(keys []string, from map[string]string) {
	ctx := o.sh.SetupCtx()
	for _, k := range keys {
		i := strings.Index(k, "|")
		store, key := k[:i], k[i+1:]
		kv := ctx.KVStore(o.sh.App.GetKey(store))
		if v, ok := from[k]; ok {
			kv.Set([]byte(key), []byte(v))
		} else {
			kv.Delete([]byte(key))
		}
		o.patched++
	}
}

func (o *shadowObs) compareStores(phase string) {
	a, b := o.orig.DumpMap(c16Stores...), o.sh.DumpMap(c16Stores...)
	diff := world.DiffDumps(a, b)
	if len(diff) == 0 {
		return
	}
	for _, k := range diff {
		cls := keyClass(k)
		if t := clientTypeOfKey(o.orig, k); t != "" && (strings.HasPrefix(cls, "client-") || cls == "consensus-state" || cls == "processed-time" || cls == "tm-iteration-key") {
			cls += "/" + t
		}
		_, inA := a[k]
		_, inB := b[k]
		how := "differs"
		if inA && !inB {
			how = "missing-after-import"
		} else if !inA && inB {
			how = "only-after-import"
		}
		o.c.Violate("C16/"+phase+"/"+cls+"/"+how, "key %q of the exported chain %s: original=%q re-imported=%q", world.Short(k, 120), o.orig.Name, world.Short(a[k], 40), world.Short(b[k], 40))
	}
	// all differences were known findings: patch and go on
	o.patch(diff, a)
}

func (o *shadowObs) OnBlock(n *world.Node, rec *world.BlockRecord) {
	if n != o.orig {
		return
	}
	shRec, err := o.sh.ApplyRecorded(rec)
	o.c.Check(err)
	o.blocks++
	for i, r := range rec.Results {
		s := shRec.Results[i]
		label := ""
		if r.Req != nil {
			label = r.Req.Label
		}
		kind := strings.SplitN(strings.SplitN(label, "(", 2)[0], " ", 2)[0]
		if r.Code != s.Code || r.Space != s.Space {
			o.c.Violate("C16/reaction/result-differs/"+kind, "tx %s (%s) at height %d: original code=%d/%s (%s), re-imported code=%d/%s (%s)", r.Hash, label, rec.Height, r.Code, r.Space, world.Short(r.Log, 80), s.Code, s.Space, world.Short(s.Log, 80))
			continue
		}
		if !eventsEqual(r, s) {
			o.c.Violate("C16/reaction/events-differ/"+kind, "tx %s (%s) at height %d emitted different events on the re-imported chain", r.Hash, label, rec.Height)
		}
	}
	o.compareStores("diverged-later")
}

func eventsEqual(a, b *world.TxResult) bool {
	if len(a.Events) != len(b.Events) {
		return false
	}
	for i := range a.Events {
		x, y := a.Events[i], b.Events[i]
		if x.Type != y.Type || len(x.Attributes) != len(y.Attributes) {
			return false
		}
		for j := range x.Attributes {
			if x.Attributes[j].Key != y.Attributes[j].Key || x.Attributes[j].Value != y.Attributes[j].Value {
				return false
			}
		}
	}
	return true
}

// compareQueries runs the TIBC gRPC query handlers on both nodes.
func (o *shadowObs) compareQueries(e *scen.Engine) {
	type q struct {
		name string
		run  func(n *world.Node) (proto.Message, error)
	}
	var qs []q
	k := func(n *world.Node) *world.Node { return n }
	_ = k
	qs = append(qs, q{"ClientStates", func(n *world.Node) (proto.Message, error) {
		return n.App.TIBCKeeper.ClientStates(n.QueryCtx(), &clienttypes.QueryClientStatesRequest{})
	}})
	qs = append(qs, q{"RoutingRules", func(n *world.Node) (proto.Message, error) {
		return n.App.TIBCKeeper.RoutingRules(n.QueryCtx(), &routingtypes.QueryRoutingRulesRequest{})
	}})
	qs = append(qs, q{"ClassTraces", func(n *world.Node) (proto.Message, error) {
		return n.App.NftTransferKeeper.ClassTraces(n.QueryCtx(), &nfttransfer.QueryClassTracesRequest{})
	}})
	for _, ic := range o.orig.App.TIBCKeeper.ClientKeeper.GetAllGenesisClients(o.orig.QueryCtx()) {
		name := ic.ChainName
		qs = append(qs, q{"ConsensusStates/" + name, func(n *world.Node) (proto.Message, error) {
			return n.App.TIBCKeeper.ConsensusStates(n.QueryCtx(), &clienttypes.QueryConsensusStatesRequest{ChainName: name})
		}})
		qs = append(qs, q{"Relayers/" + name, func(n *world.Node) (proto.Message, error) {
			return n.App.TIBCKeeper.Relayers(n.QueryCtx(), &clienttypes.QueryRelayersRequest{ChainName: name})
		}})
		for _, pair := range [][2]string{{o.orig.Name, name}, {name, o.orig.Name}} {
			src, dst := pair[0], pair[1]
			qs = append(qs, q{"PacketCommitments", func(n *world.Node) (proto.Message, error) {
				return n.App.TIBCKeeper.PacketCommitments(n.QueryCtx(), &packettypes.QueryPacketCommitmentsRequest{SourceChain: src, DestChain: dst})
			}})
			qs = append(qs, q{"PacketAcknowledgements", func(n *world.Node) (proto.Message, error) {
				return n.App.TIBCKeeper.PacketAcknowledgements(n.QueryCtx(), &packettypes.QueryPacketAcknowledgementsRequest{SourceChain: src, DestChain: dst})
			}})
			qs = append(qs, q{"CleanPacketCommitment", func(n *world.Node) (proto.Message, error) {
				return n.App.TIBCKeeper.CleanPacketCommitment(n.QueryCtx(), &packettypes.QueryCleanPacketCommitmentRequest{SourceChain: src, DestChain: dst})
			}})
		}
	}
	for _, x := range qs {
		ra, ea := x.run(o.orig)
		rb, eb := x.run(o.sh)
		if (ea == nil) != (eb == nil) {
			o.c.Violate("C16/query/"+strings.SplitN(x.name, "/", 2)[0]+"/error-differs", "query %s: original err=%v, re-imported err=%v", x.name, ea, eb)
			continue
		}
		if ea != nil {
			continue
		}
		ba, _ := proto.Marshal(ra)
		bb, _ := proto.Marshal(rb)
		if !bytes.Equal(ba, bb) {
			o.c.Violate("C16/query/"+strings.SplitN(x.name, "/", 2)[0]+"/answer-differs", "query %s answers differently on the re-imported chain:\noriginal:    %s\nre-imported: %s", x.name, world.Short(fmt.Sprint(ra), 300), world.Short(fmt.Sprint(rb), 300))
		}
		o.c.W.Stats.Inc("probe-queries-compared")
	}
}

func runC16(c *core.Ctx) {
	ch := c.Ch
	nChains := ch.Range(2, 3)
	w, e := buildTokenWorld(c, nChains)
	uni := scen.DefaultUniverse()
	uni.RelayPct = 40
	e.SeedTokens(uni, 3)
	X := w.Nodes[ch.Int(len(w.Nodes))]
	for _, f := range ExtraClientSetups {
		f(c, w, X)
	}
	traffic := func(steps int, withReplays bool) {
		for i := 0; i < steps; i++ {
			c.Step("c16")
			switch ch.Pick([]int{30, 40, 10, 12, 8}) {
			case 0:
				e.RandomUserOp(w.Nodes[ch.Int(len(w.Nodes))], uni)
			case 1:
				if it := pickPending(c, e); it != nil {
					e.Deliver(it, w.Relayers[ch.Int(2)])
				}
			case 2:
				userClean(c, e, w.Nodes[ch.Int(len(w.Nodes))])
			case 3:
				if !withReplays {
					// extra client updates: many consensus states per client
					a, b := w.Nodes[ch.Int(len(w.Nodes))], w.Nodes[ch.Int(len(w.Nodes))]
					if a != b {
						_, err := w.Block(b, nil, world.NoCrash)
						c.Check(err)
						e.Update(a, b, w.Relayers[0])
					}
					continue
				}
				old := genuineSent(e, scen.KRecv, scen.KAck, scen.KClean)
				if len(old) == 0 {
					continue
				}
				d := scen.CloneSent(old[ch.Int(len(old))])
				d.Mut = "replay"
				w.Stats.Inc("replay")
				e.Submit(d)
			case 4:
				_, err := w.Block(w.Nodes[ch.Int(len(w.Nodes))], nil, world.NoCrash)
				c.Check(err)
			}
		}
	}
	traffic(40+ch.Int(60), false)

	c.Step("export")
	sh, err := X.ExportAndReimport()
	c.Check(err)
	w.Stats.Inc("export-import")
	obs := &shadowObs{c: c, orig: X, sh: sh}
	w.Log.Add("exported %s at height %d and re-imported into a shadow", X.Name, X.Height)
	// the re-imported chain answers queries only after its first block: give both the same empty block
	rec0, err := w.Block(X, nil, world.NoCrash)
	c.Check(err)
	_, err = sh.ApplyRecorded(rec0)
	c.Check(err)
	obs.compareStores("after-import")
	// irismod's own nft / mt genesis is outside TIBC: whatever it fails to restore is aligned
	// silently (counted in the evidence) so that later reactions compare TIBC behaviour only
	if a, b := X.DumpMap("nft", "mt"), sh.DumpMap("nft", "mt"); true {
		if d := world.DiffDumps(a, b); len(d) > 0 {
			obs.patch(d, a)
			w.Stats.Add("irismod-genesis-keys-aligned", len(d))
			w.Log.Add("irismod nft/mt stores differ after re-import in %d keys (aligned, not a TIBC finding): %s", len(d), diffSummary(d, 3))
		}
	}
	// store differences reported above (known findings) were patched into the
	// shadow; one more shared block persists the patches, then the TIBC gRPC
	// queries must answer identically
	rec1, err := w.Block(X, nil, world.NoCrash)
	c.Check(err)
	_, err = sh.ApplyRecorded(rec1)
	c.Check(err)
	obs.compareStores("after-import")
	obs.compareQueries(e)
	w.Observers = append(w.Observers, obs)
	uni.NoNewMTIDs = true
	// the patches are persisted by the first shadow block
	traffic(30+ch.Int(50), true)
	w.Stats.Add("shadow-blocks", obs.blocks)
	w.Stats.Add("shadow-keys-patched", obs.patched)
	c.Nontrivial = obs.blocks >= 10
}
