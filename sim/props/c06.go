package props

import (
	"fmt"
	"strings"

	"tibcsim/core"
	"tibcsim/scen"
	"tibcsim/world"
)

// C06: failed transfers are refunded exactly; a round trip restores the original.

func init() {
	register(&core.Profile{Name: "c06-round-trip", Property: "C06", Weight: 2, Run: runC06Tour,
		Doc: "2-4 chains; an NFT (class from the adversarial set, incl. names with '/') or an MT amount is sent away over a route of 1-3 hops with or without relay chains and returned hop by hop by an honest relayer, after unrelated traffic; the final receiver on the origin chain must hold it in its original class/id, every intermediate voucher must be gone"})
	register(&core.Profile{Name: "c06-round-trip-lookalike-chains", Property: "C06", Weight: 1, Run: withLookalikeChains(runC06Tour),
		Doc: "c06-round-trip in a world whose chain names are suffixes / prefixes of one another"})
	register(&core.Profile{Name: "c06-refund", Property: "C06", Weight: 2, Run: runC06Refund,
		Doc: "2-4 chains; transfers (native assets and vouchers, direct and relayed) that fail on the receiving side (invalid receiver, relay chain refusing by rule, zero MT amount) are acknowledged with an error; after the ack is processed the sender's holdings equal the snapshot taken before the send and the receiving chain holds nothing of it"})
}

type tourAsset struct {
	nft           bool
	class, id     string
	amount        uint64
	origClass     string
	origChain     string
}

// findNew returns the NFT / MT entry that a user holds now but did not before
// (how the voucher class on a chain is learnt: by observation).
func findNewNFT(before, after []world.NFTInfo, owner string) (world.NFTInfo, bool) {
	seen := map[string]bool{}
	for _, t := range before {
		seen[t.Class+"|"+t.ID+"|"+t.Owner] = true
	}
	for _, t := range after {
		if t.Owner == owner && !seen[t.Class+"|"+t.ID+"|"+t.Owner] {
			return t, true
		}
	}
	return world.NFTInfo{}, false
}

func findGrownMT(before, after []world.MTBalance, owner string, amount uint64) (world.MTBalance, bool) {
	old := map[string]uint64{}
	for _, b := range before {
		old[b.Owner+"|"+b.Class+"|"+b.ID] = b.Amount
	}
	for _, b := range after {
		if b.Owner == owner && b.Amount-old[b.Owner+"|"+b.Class+"|"+b.ID] == amount && b.Amount >= old[b.Owner+"|"+b.Class+"|"+b.ID] && amount > 0 {
			return b, true
		}
	}
	return world.MTBalance{}, false
}

func lastAckSuccess(e *scen.Engine, before int) (found, success bool) {
	for _, s := range e.Sent[before:] {
		if s.Item != nil && s.Item.Kind == scen.KAck && s.Result != nil && s.Result.OK() && s.Target == s.Item.P.SourceChain {
			found = true
			success, _ = IsSuccessAck(s.Item.Ack)
		}
	}
	return
}

func runC06Tour(c *core.Ctx) {
	ch := c.Ch
	nChains := ch.Range(2, 4)
	w, e := buildTokenWorld(c, nChains)
	uni := scen.DefaultUniverse()
	// unrelated traffic first
	e.SeedTokens(uni, 2)
	for i := 0; i < 6+ch.Int(10); i++ {
		c.Step("noise")
		e.RandomUserOp(w.Nodes[ch.Int(len(w.Nodes))], uni)
		if it := pickPending(c, e); it != nil {
			e.Deliver(it, w.Relayers[0])
		}
	}
	e.Drain(80)

	tours := 1 + ch.Int(2)
	for t := 0; t < tours; t++ {
		c.Step("tour")
		// route: distinct chains
		perm := ch.Int(len(w.Nodes))
		var route []*world.Node
		used := map[string]bool{}
		hops := 1 + ch.Int(min(3, len(w.Nodes)-1))
		cur := w.Nodes[perm]
		route = append(route, cur)
		used[cur.Name] = true
		for len(route) <= hops {
			var cands []*world.Node
			for _, n := range w.Nodes {
				if !used[n.Name] {
					cands = append(cands, n)
				}
			}
			if len(cands) == 0 {
				break
			}
			nx := cands[ch.Int(len(cands))]
			route = append(route, nx)
			used[nx.Name] = true
		}
		origin := route[0]
		holder := w.Users[ch.Int(len(w.Users))]
		as := &tourAsset{nft: ch.Bool(2, 3), origChain: origin.Name}
		classes := adversarialClasses(w)
		if as.nft {
			as.class = classes[ch.Int(len(classes))]
			as.id = []string{"aaa", "xx1", "tour"}[ch.Int(3)] + fmt.Sprint(t)
			e.IssueNFTDenom(origin, holder, as.class) // may already exist (then the mint needs its owner; ignore failures)
			if r := e.MintNFT(origin, holder, as.class, as.id, holder); !r.OK() {
				w.Stats.Inc("tour-aborted-mint")
				continue
			}
		} else {
			e.IssueMTDenom(origin, holder, "tourclass")
			var class string
			for _, d := range origin.App.MtKeeper.GetDenoms(origin.QueryCtx()) {
				if d.Owner == holder.Addr.String() {
					class = d.Id
				}
			}
			as.class = class
			as.amount = mtAmounts[ch.Int(len(mtAmounts))]
			bb, _ := origin.MTSnapshot()
			if r := e.MintMT(origin, holder, class, "", as.amount, holder); !r.OK() {
				w.Stats.Inc("tour-aborted-mint")
				continue
			}
			ba, _ := origin.MTSnapshot()
			nb, ok := findGrownMT(bb, ba, holder.Addr.String(), as.amount)
			if !ok {
				continue
			}
			as.id = nb.ID
		}
		as.origClass = as.class
		shape := classShape(as.origClass, as.nft)
		w.Log.Add("tour %d: %v class=%q id=%s amount=%d route=%v", t, map[bool]string{true: "NFT", false: "MT"}[as.nft], as.class, world.Short(as.id, 8), as.amount, names(route))
		views := map[string]string{}
		for _, n := range w.Nodes {
			views[n.Name] = tokenView(n)
		}

		// helper: one hop of the asset from a to b
		curClass := as.class
		curHolder := holder
		hop := func(a, b *world.Node, receiver *world.Account) (ok bool, nextClass string) {
			relay := ""
			if ch.Bool(1, 3) {
				var cands []*world.Node
				for _, n := range w.Nodes {
					if n != a && n != b {
						cands = append(cands, n)
					}
				}
				if len(cands) > 0 {
					relay = cands[ch.Int(len(cands))].Name
					w.Stats.Inc("tour-hop-relayed")
				}
			}
			nb, _ := b.NFTSnapshot()
			mb, _ := b.MTSnapshot()
			sentBefore := len(e.Sent)
			var r *world.TxResult
			if as.nft {
				r = e.NftTransfer(a, curHolder, curClass, as.id, receiver.Addr.String(), b.Name, relay)
			} else {
				r = e.MtTransfer(a, curHolder, curClass, as.id, as.amount, receiver.Addr.String(), b.Name, relay)
			}
			if !r.OK() {
				w.Log.Add("tour hop %s->%s: send failed: %s", a.Name, b.Name, world.Short(r.Log, 100))
				return false, ""
			}
			e.Drain(30)
			found, succ := lastAckSuccess(e, sentBefore)
			if !found || !succ {
				w.Log.Add("tour hop %s->%s: acknowledged=%v success=%v", a.Name, b.Name, found, succ)
				return false, ""
			}
			if as.nft {
				na, _ := b.NFTSnapshot()
				x, ok := findNewNFT(nb, na, receiver.Addr.String())
				if !ok || x.ID != as.id {
					violShape(c, shape, "C06/round-trip/nothing-arrived", "hop %s->%s of %s/%s acknowledged with success but %s holds no new NFT with that id", a.Name, b.Name, curClass, as.id, receiver.Name)
					return false, ""
				}
				return true, x.Class
			}
			ma, _ := b.MTSnapshot()
			x, ok := findGrownMT(mb, ma, receiver.Addr.String(), as.amount)
			if !ok {
				violShape(c, shape, "C06/round-trip/nothing-arrived", "hop %s->%s of %d units acknowledged with success but %s's balances did not grow by that amount", a.Name, b.Name, as.amount, receiver.Name)
				return false, ""
			}
			return true, x.Class
		}

		okAll := true
		for i := 0; i+1 < len(route) && okAll; i++ {
			rcv := w.Users[ch.Int(len(w.Users))]
			ok, cls := hop(route[i], route[i+1], rcv)
			if !ok {
				okAll = false
				break
			}
			curClass, curHolder = cls, rcv
		}
		if !okAll {
			w.Stats.Inc("tour-aborted-outbound")
			continue
		}
		for i := len(route) - 1; i > 0 && okAll; i-- {
			rcv := w.Users[ch.Int(len(w.Users))]
			ok, cls := hop(route[i], route[i-1], rcv)
			if !ok {
				okAll = false
				break
			}
			curClass, curHolder = cls, rcv
		}
		if !okAll {
			w.Stats.Inc("tour-aborted-return")
			// a return leg of an honest round trip that is refused or errors is itself a failure to restore
			violShape(c, shape, "C06/round-trip/return-leg-failed", "tour of %s/%s over %v: a return hop failed or was answered with an error acknowledgement", as.origClass, world.Short(as.id, 10), names(route))
			continue
		}
		w.Stats.Inc("probe-tour-completed")
		if len(route) >= 3 {
			w.Stats.Inc("probe-tour-multi-hop")
		}
		if strings.Contains(as.origClass, "/") {
			w.Stats.Inc("probe-tour-class-with-slash")
		}
		// final checks
		if curClass != as.origClass {
			violShape(c, shape, "C06/round-trip/class-not-restored", "tour over %v: %s/%s came back to %s as class %q", names(route), as.origClass, world.Short(as.id, 10), origin.Name, curClass)
		}
		want := views[origin.Name]
		if as.nft {
			want = strings.Replace(want, fmt.Sprintf("nft %s/%s=%s\n", as.origClass, as.id, holder.Addr.String()), fmt.Sprintf("nft %s/%s=%s\n", as.origClass, as.id, curHolder.Addr.String()), 1)
		}
		got := tokenView(origin)
		if as.nft && got != want {
			violShape(c, shape, "C06/round-trip/origin-state", "tour over %v of %s/%s: origin chain state is not the original with the final receiver as owner\nwant:\n%s\ngot:\n%s", names(route), as.origClass, as.id, want, got)
		}
		if !as.nft {
			if b := origin.MTBalanceOf(curHolder.Addr.String(), as.origClass, as.id); b < as.amount {
				violShape(c, shape, "C06/round-trip/origin-state", "tour over %v of %d units: final receiver holds %d of the original multi-token", names(route), as.amount, b)
			}
			if esc := origin.MTBalanceOf(world.ModuleAddr("MT"), as.origClass, as.id); esc != 0 {
				violShape(c, shape, "C06/round-trip/escrow-left", "tour over %v: %d units of the original are still in escrow on the origin", names(route), esc)
			}
		}
		for _, n := range route[1:] {
			if v := tokenView(n); v != views[n.Name] {
				violShape(c, shape, "C06/round-trip/voucher-left", "tour over %v of %s/%s: %s is not back to its prior token state\nbefore:\n%s\nafter:\n%s", names(route), as.origClass, world.Short(as.id, 10), n.Name, views[n.Name], v)
			}
		}
	}
	c.Nontrivial = w.Stats["probe-tour-completed"] >= 1
}

// classShape is the discriminator of round-trip findings: what kind of class
// name travelled.
func classShape(class string, nft bool) string {
	if !nft {
		return "mt"
	}
	slash := strings.Contains(class, "/")
	switch {
	case strings.HasPrefix(class, "nft") && slash:
		return "nft-prefixed-class-with-slash"
	case strings.HasPrefix(class, "nft"):
		return "nft-prefixed-class"
	case slash:
		return "class-with-slash"
	}
	return "plain-class"
}

func violShape(c *core.Ctx, shape, sig, format string, args ...interface{}) {
	c.Violate(sig+"/"+shape, format, args...)
}

func names(ns []*world.Node) []string {
	var out []string
	for _, n := range ns {
		out = append(out, n.Name)
	}
	return out
}

func min(a, b int) int {
	if a < b {
		return a
	}
	return b
}

func runC06Refund(c *core.Ctx) {
	ch := c.Ch
	nChains := ch.Range(2, 4)
	w, e := buildTokenWorld(c, nChains)
	// one chain refuses to relay MT, another refuses NFT (when present)
	if nChains >= 3 {
		c.Check(w.SetRules(w.Nodes[2], []string{"*,*,NFT"}))
		_, err := w.Block(w.Nodes[2], nil, world.NoCrash)
		c.Check(err)
	}
	uni := scen.DefaultUniverse()
	uni.BadReceiverPct = 0
	e.SeedTokens(uni, 3)
	// spread vouchers around so that refunds of burned vouchers occur too
	for i := 0; i < 10+ch.Int(12); i++ {
		c.Step("spread")
		e.RandomUserOp(w.Nodes[ch.Int(len(w.Nodes))], uni)
		if it := pickPending(c, e); it != nil {
			e.Deliver(it, w.Relayers[0])
		}
	}
	e.Drain(100)
	users := map[string]*world.Account{}
	for _, u := range w.Users {
		users[u.Addr.String()] = u
	}
	refunds := 0
	tries := 6 + ch.Int(10)
	for t := 0; t < tries; t++ {
		c.Step("refund")
		n := w.Nodes[ch.Int(len(w.Nodes))]
		nfts, _ := n.NFTSnapshot()
		bals, _ := n.MTSnapshot()
		var on []world.NFTInfo
		for _, x := range nfts {
			if users[x.Owner] != nil {
				on = append(on, x)
			}
		}
		var om []world.MTBalance
		for _, b := range bals {
			if users[b.Owner] != nil && b.Amount > 0 {
				om = append(om, b)
			}
		}
		var others []*world.Node
		for _, o := range w.Nodes {
			if o != n {
				others = append(others, o)
			}
		}
		d := others[ch.Int(len(others))]
		relay := ""
		if len(others) > 1 && ch.Bool(1, 2) {
			for _, o := range others {
				if o != d {
					relay = o.Name
				}
			}
		}
		views := map[string]string{}
		for _, x := range w.Nodes {
			views[x.Name] = tokenView(x)
		}
		failure := ch.Int(4) // 3 = a token-keeper call fails on the destination (hook H2), after partial writes
		world.DisarmKeeperFaults()
		recv := w.Users[ch.Int(len(w.Users))].Addr.String()
		if failure == 0 {
			recv = []string{"not-an-address", "cosmos1xyz", "   x"}[ch.Int(3)]
		}
		sentBefore := len(e.Sent)
		var r *world.TxResult
		what := ""
		isNFT := len(on) > 0 && (len(om) == 0 || ch.Bool(1, 2))
		switch {
		case isNFT:
			x := on[ch.Int(len(on))]
			if failure == 1 { // relay refusal: route NFT through a chain that only relays MT? none set; use bad receiver instead
				recv = "not-an-address"
			}
			if failure == 2 {
				recv = "not-an-address"
			}
			what = fmt.Sprintf("NFT %s/%s", x.Class, x.ID)
			r = e.NftTransfer(n, users[x.Owner], x.Class, x.ID, recv, d.Name, relay)
		case len(om) > 0:
			b := om[ch.Int(len(om))]
			amt := 1 + uint64(ch.Int(int(minU64(b.Amount, 1000))))
			if ch.Bool(1, 3) {
				amt = b.Amount
			}
			switch failure {
			case 1: // relay chain refusing MT by rule (chain 2 relays only NFT)
				if nChains >= 3 && n != w.Nodes[2] {
					relay = w.Nodes[2].Name
					if d == w.Nodes[2] {
						for _, o := range others {
							if o != w.Nodes[2] {
								d = o
							}
						}
					}
					if d == w.Nodes[2] {
						recv = "not-an-address"
						relay = ""
					}
					w.Stats.Inc("probe-refund-after-relay-refusal")
				} else {
					recv = "not-an-address"
				}
			case 2:
				amt = 0 // refused by the receiving side's packet validation
				w.Stats.Inc("probe-refund-zero-amount")
			}
			what = fmt.Sprintf("%d units of MT %s/%s", amt, world.Short(b.Class, 10), world.Short(b.ID, 6))
			r = e.MtTransfer(n, users[b.Owner], b.Class, b.ID, amt, recv, d.Name, relay)
		default:
			continue
		}
		if !r.OK() {
			continue
		}
		if failure == 3 {
			ms := []string{"IssueMT", "MintMT", "MtTransferOwner"}
			if isNFT {
				ms = []string{"IssueDenom", "MintNFT", "TransferOwner"}
			}
			f := world.ArmKeeperFault(&world.KeeperFault{Chain: d.Name, Method: ms[ch.Int(len(ms))], Skip: ch.Int(2)})
			e.Drain(40)
			if f.Fired > 0 {
				w.Stats.Inc("probe-refund-after-keeper-fault-" + f.Method)
			}
			world.DisarmKeeperFaults()
		}
		e.Drain(40)
		found, succ := lastAckSuccess(e, sentBefore)
		if !found {
			w.Stats.Inc("refund-not-acknowledged")
			// an honest relayer offered the error acknowledgement to the sending chain and it was
			// refused every time: the sender never gets back what left
			for _, s := range e.Sent[sentBefore:] {
				if s.Item == nil || s.Item.Kind != scen.KAck || s.Mut != "" || s.Result == nil || s.Result.OK() || s.Target != s.Item.P.SourceChain || s.Target != n.Name {
					continue
				}
				if succ, ok := IsSuccessAck(s.Item.Ack); ok && !succ {
					kind := "native"
					if strings.HasPrefix(what, "NFT tibc-") || strings.Contains(what, "MT tibc-") {
						kind = "voucher"
					}
					c.Violate("C06/refund/error-ack-refused-by-sender/"+kind, "%s sent from %s to %s via %q was answered with an error acknowledgement, but %s refuses to process it (code %d: %s): the sender is never refunded",
						what, n.Name, d.Name, relay, n.Name, s.Result.Code, world.Short(s.Result.Log, 160))
				}
			}
			continue
		}
		if succ {
			// the transfer went through after all (e.g. relay did not refuse); not a refund case
			continue
		}
		refunds++
		for _, x := range w.Nodes {
			if v := tokenView(x); v != views[x.Name] {
				role := "other"
				switch x {
				case n:
					role = "sender-side"
				case d:
					role = "receiving-side"
				}
				c.Violate("C06/refund/not-exact@"+role, "%s sent from %s to %s via %q was answered with an error acknowledgement; after processing it %s's token state differs from the snapshot before the send\nbefore:\n%s\nafter:\n%s", what, n.Name, d.Name, relay, x.Name, views[x.Name], v)
			}
		}
	}
	w.Stats.Add("probe-refunds-checked", refunds)
	c.Nontrivial = refunds >= 1
}
