package props

// Thorough-tier "-deep" variants: the same scenario families with runs several
// times as long, so that sequences reach three digits, clients see hundreds of
// headers and many clean / expiry / fork cycles accumulate in one history.
// (This file sorts last so that its init runs after every base profile is registered.)
func init() {
	registerDeep("c01-byzantine-recv", 4)
	registerDeep("c02-long-channel", 4)
	registerDeep("c03-byzantine-ack", 4)
	registerDeep("c04-nft-conservation", 4)
	registerDeep("c05-mt-conservation", 4)
	registerDeep("c09-sends", 4)
	registerDeep("c10-long-channel", 4)
	registerDeep("c11-relay", 3)
	registerDeep("c13-port-relay-edits", 4)
	registerDeep("c17-bsc-chain", 5)
	registerDeep("c18-eth-tree", 5)
	registerDeep("c19-failures", 3)
	registerDeep("c20-reexec", 3)
}
