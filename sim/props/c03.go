package props

import (
	"bytes"

	packettypes "github.com/bianjieai/tibc-go/modules/tibc/core/04-packet/types"

	"tibcsim/core"
	"tibcsim/model"
	"tibcsim/scen"
	"tibcsim/world"
)

// C03: acknowledgements are authentic, written once and processed at most once.

var c03Muts = []string{scen.MutAckBytes, scen.MutAckBytes, scen.MutSeq, scen.MutSrc, scen.MutDst, scen.MutProofKey, scen.MutProver,
	scen.MutProofHeight, scen.MutData, scen.MutTarget, scen.MutProofBytes, scen.MutSigner}

func init() {
	register(&core.Profile{Name: "c03-byzantine-ack", Property: "C03", Weight: 3, Run: func(c *core.Ctx) { runC03(c, false) },
		Doc: "2-4 chains, transfers answered with success and error acks (bad receivers, relay-chain refusals), direct and relayed; honest relayer plus Byzantine mutations and replays of genuine acknowledgement messages"})
	register(&core.Profile{Name: "c03-byzantine-ack-crash", Property: "C03", Weight: 1, Fault: true, Run: func(c *core.Ctx) { runC03(c, true) },
		Doc: "same with crash/restart between steps"})
}

// IsSuccessAck decodes acknowledgement bytes; ok=false when they do not decode.
func IsSuccessAck(bz []byte) (success bool, ok bool) {
	var ack packettypes.Acknowledgement
	if err := ack.Unmarshal(bz); err != nil {
		return false, false
	}
	switch ack.Response.(type) {
	case *packettypes.Acknowledgement_Result:
		return true, true
	case *packettypes.Acknowledgement_Error:
		return false, true
	}
	return false, false
}

// ackSoundness is the sending-side oracle of C03.
func ackSoundness(c *core.Ctx, e *scen.Engine, s *scen.Sent, n *world.Node, r *world.TxResult, before map[string]string) {
	if _, isAck := s.Msg.(*packettypes.MsgAcknowledgement); !isAck {
		return
	}
	// the verdict is the model's: any successful MsgAcknowledgement counts as "processed",
	// whatever events it emitted
	if !r.OK() {
		return
	}
	if world.CountEvents(r.Events, packettypes.EventTypeAcknowledgePacket) == 0 {
		c.W.Stats.Inc("probe-ack-ok-without-ack-event")
	}
	p, a, h, _ := scen.SentPacket(s)
	k := model.KeyOf(p)
	mut := firstTok(s.Mut)
	if mut == "" {
		mut = "genuine"
	}
	x := e.PM.On(n.Name)
	cm := x.LiveCommit(k, r.Height-1)
	if cm == nil {
		c.Violate("C03/ack-accepted/no-commitment/"+mut, "%s processed an acknowledgement for %s (mutation %q) without holding its commitment", n.Name, k, s.Mut)
	} else if cm.DataHash != sha(p.Data) {
		c.Violate("C03/ack-accepted/other-packet/"+mut, "%s processed an acknowledgement for %s (mutation %q) whose data differs from the committed packet", n.Name, k, s.Mut)
	}
	prover := scen.ProvingChainForAck(p, n.Name)
	rec := e.PM.On(prover).LiveAck(k, int64(h.RevisionHeight)-1)
	if rec == nil {
		c.Violate("C03/ack-accepted/not-recorded/"+mut, "%s accepted an acknowledgement for %s (mutation %q, proof height %d) that %s never recorded", n.Name, k, s.Mut, h.RevisionHeight, prover)
	} else if !bytes.Equal(rec.Bytes, a) {
		c.Violate("C03/ack-accepted/other-ack/"+mut, "%s accepted acknowledgement bytes %q for %s (mutation %q) but %s recorded %q", n.Name, world.Short(string(a), 40), k, s.Mut, prover, world.Short(string(rec.Bytes), 40))
	}
	if x.AckOK[k] > 1 {
		c.Violate("C03/ack-processed-twice@"+roleOf(p, n.Name), "%s processed an acknowledgement for %s %d times", n.Name, k, x.AckOK[k])
	}
	if n.HasCommitment(k.Src, k.Dst, k.Seq) {
		c.Violate("C03/commitment-not-deleted@"+roleOf(p, n.Name), "%s still holds the commitment of %s after acknowledging it", n.Name, k)
	}
	if succ, ok := IsSuccessAck(a); ok && succ && before != nil {
		after := n.DumpMap("nft", "mt")
		b2 := map[string]string{}
		for kk, v := range before {
			if len(kk) > 3 && (kk[:4] == "nft|" || kk[:3] == "mt|") {
				b2[kk] = v
			}
		}
		if d := world.DiffDumps(b2, after); len(d) > 0 {
			c.Violate("C03/token-change-on-success-ack@"+roleOf(p, n.Name), "%s changed token state while processing a success acknowledgement for %s: %s", n.Name, k, diffSummary(d, 3))
		}
	}
}

// ackWriteOracle is the receiving-side oracle: the stored ack is the one the
// application returned (event bytes), non-empty.
func ackWriteOracle(c *core.Ctx, n *world.Node, r *world.TxResult) {
	if !r.OK() {
		return
	}
	for _, ev := range world.ParsePacketEvents(r.Events) {
		if ev.Type != packettypes.EventTypeWriteAck {
			continue
		}
		k := model.KeyOf(ev.Packet)
		if len(ev.Ack) == 0 {
			c.Violate("C03/empty-ack", "%s recorded an empty acknowledgement for %s", n.Name, k)
		}
		stored, ok := n.AckHash(k.Src, k.Dst, k.Seq)
		want := sha(ev.Ack)
		if !ok || !bytes.Equal(stored, want[:]) {
			c.Violate("C03/stored-ack-mismatch", "%s: stored acknowledgement hash %x for %s is not the hash of the acknowledgement it announced (%x)", n.Name, stored, k, want[:6])
		}
	}
}

// ackImmutable is run after every block: every acknowledgement the model holds
// as live must still be stored unchanged.
type ackImmutable struct {
	c *core.Ctx
	e *scen.Engine
}

func (o *ackImmutable) OnBlock(n *world.Node, rec *world.BlockRecord) {
	cp := o.e.PM.On(n.Name)
	for _, k := range sortedPKeys(cp.Acks) {
		a := cp.LiveAck(k, rec.Height)
		if a == nil {
			continue
		}
		stored, ok := n.AckHash(k.Src, k.Dst, k.Seq)
		want := sha(a.Bytes)
		if !ok {
			o.c.Violate("C03/ack-disappeared", "%s: acknowledgement of %s recorded at height %d is gone at height %d without a clean", n.Name, k, a.From, rec.Height)
		} else if !bytes.Equal(stored, want[:]) {
			o.c.Violate("C03/ack-changed", "%s: acknowledgement of %s recorded at height %d changed by height %d", n.Name, k, a.From, rec.Height)
		}
	}
	for _, pr := range o.e.PM.Problems {
		o.c.Violate("C03/ack-or-commitment-rewritten", "%s", pr)
	}
	o.e.PM.Problems = nil
}

func runC03(c *core.Ctx, crashes bool) {
	ch := c.Ch
	nChains := ch.Range(2, 4)
	params := world.DefaultClientParams()
	params.TimeDelay = []uint64{0, 0, 1_000_000_000, 3_000_000_000}[ch.Int(4)] // confirmation delay of every client
	w, e := buildTraffic(c, nChains, params)
	// some relay chains refuse some traffic (error acks written by the relay)
	for _, n := range w.Nodes {
		if ch.Bool(1, 3) {
			c.Check(w.SetRules(n, []string{"*,*,NFT"}))
			w.Stats.Inc("restrictive-rules")
		}
	}
	e.DumpStores = []string{"nft", "mt"}
	w.Observers = append(w.Observers, &ackImmutable{c, e})
	uni := scen.DefaultUniverse()
	uni.BadReceiverPct = 30
	uni.UnknownDestPct = 6
	e.SeedTokens(uni, 3)
	muts := 0
	e.OnRelayTx = func(s *scen.Sent, n *world.Node, r *world.TxResult, before map[string]string) {
		ackSoundness(c, e, s, n, r, before)
		ackWriteOracle(c, n, r)
		if _, isAck := s.Msg.(*packettypes.MsgAcknowledgement); isAck && s.Mut != "" {
			muts++
			w.Stats.Inc("byz-" + firstTok(s.Mut))
			if r.OK() {
				w.Stats.Inc("byz-accepted-legit")
			}
		}
	}
	steps := (70 + ch.Int(100)) * c.Scale
	for i := 0; i < steps; i++ {
		c.Step("c03")
		switch ch.Pick([]int{25, 35, 30, 5, 5, 4, 6}) {
		case 5: // a relay chain opens (or closes) its routes while traffic is under way
			n := w.Nodes[ch.Int(len(w.Nodes))]
			if n.Down {
				continue
			}
			rules := [][]string{{"*,*,*"}, {"*,*,*"}, {"*,*,NFT"}, {"*,*,MT"}}[ch.Int(4)]
			c.Check(w.SetRules(n, rules))
			_, err := w.Block(n, nil, world.NoCrash)
			c.Check(err)
			w.Stats.Inc("rules-changed-mid-run")
			w.Log.Add("rules of %s now %q", n.Name, rules)
		case 6: // an old receive (also one a relay chain refused earlier) is submitted again, bytes and proof unchanged
			old := genuineSent(e, scen.KRecv)
			if len(old) == 0 {
				continue
			}
			d := scen.CloneSent(old[ch.Int(len(old))])
			d.Mut = "replay-recv"
			w.Stats.Inc("replay-recv")
			e.Submit(d)
		case 0:
			e.RandomUserOp(w.Nodes[ch.Int(len(w.Nodes))], uni)
		case 1:
			if it := pickPending(c, e); it != nil {
				e.Deliver(it, w.Relayers[ch.Int(2)])
			}
		case 2:
			orig := byzSource(c, e, scen.KAck)
			if orig == nil {
				continue
			}
			if ch.Bool(1, 5) { // plain replay (second submission)
				d := scen.CloneSent(orig)
				d.Mut = "replay"
				e.Submit(d)
				continue
			}
			m := e.Mutate(orig, c03Muts[ch.Int(len(c03Muts))])
			if m == nil {
				continue
			}
			if ch.Bool(1, 6) {
				if m2 := e.Mutate(m, c03Muts[ch.Int(len(c03Muts))]); m2 != nil {
					m2.Mut = m.Mut + "+" + m2.Mut
					m = m2
				}
			}
			e.Submit(m)
		case 3:
			userClean(c, e, w.Nodes[ch.Int(len(w.Nodes))])
		case 4:
			if crashes {
				crashSome(c, w)
			} else {
				n := w.Nodes[ch.Int(len(w.Nodes))]
				_, err := w.Block(n, nil, world.NoCrash)
				c.Check(err)
			}
		}
	}
	c.Nontrivial = muts >= 3
}
