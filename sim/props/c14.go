package props

import (
	"fmt"
	"math/big"
	"time"

	sdk "github.com/cosmos/cosmos-sdk/types"

	clienttypes "github.com/bianjieai/tibc-go/modules/tibc/core/02-client/types"
	"github.com/bianjieai/tibc-go/modules/tibc/core/exported"

	"tibcsim/core"
	"tibcsim/scen"
	"tibcsim/world"
)

// C14: expired light clients are frozen out, for every client type.
//
// For each client type the host clock is moved so that the age of the newest
// consensus state is well inside / just inside / exactly at / just past / far
// past the trusting period (random non-zero sub-second parts).  At that instant
// Status(), a valid MsgUpdateClient and (Tendermint) valid MsgRecvPacket /
// MsgAcknowledgement proven from that client are observed in one block.
// age > period (client's own unit)  => Expired, everything refused;
// age < period                      => Active, everything accepted;
// at the open boundary               => all observations must agree.

func init() {
	register(&core.Profile{Name: "c14-expiry", Property: "C14", Weight: 1, Run: runC14,
		Doc: "host chain with a Tendermint client (real counterparty chain with packet traffic), a BSC client and an ETH client; trusting periods from the tape; clock jumps to the five regions around expiry with seeded sub-second parts; Status / update / receive / acknowledgement observed in the same block"})
}

type c14Region int

const (
	regWellInside c14Region = iota
	regJustInside
	regExact
	regJustPast
	regFarPast
)

var c14RegionNames = []string{"well-inside", "just-inside", "exact", "just-past", "far-past"}

// verdict: +1 must be Active, -1 must be Expired, 0 open boundary.
// unit is the client's own time unit in ns (1 for Tendermint, 1e9 for BSC/ETH).
func c14Verdict(nowNs, tsUnits, tpUnits *big.Int, unit int64) int {
	u := big.NewInt(unit)
	lo := new(big.Int).Mul(new(big.Int).Add(tsUnits, tpUnits), u) // (ts+TP)*unit
	if nowNs.Cmp(lo) < 0 {
		return +1
	}
	hi := lo
	if unit > 1 {
		hi = new(big.Int).Add(lo, u) // (ts+TP+1)*unit: sound under either rounding convention
		if nowNs.Cmp(hi) >= 0 {
			return -1
		}
		return 0
	}
	if nowNs.Cmp(hi) > 0 {
		return -1
	}
	return 0 // now == ts+TP exactly
}

func c14Target(c *core.Ctx, tsNs, tpNs int64, reg c14Region) time.Time {
	ch := c.Ch
	sub := int64(1 + ch.Int(999_999_998)) // non-zero sub-second part
	var d int64
	switch reg {
	case regWellInside:
		d = -(tpNs / 2) - sub
	case regJustInside:
		d = -int64(1+ch.Int(3))*1_000_000_000 - sub
		if ch.Bool(1, 3) {
			d = -int64(1 + ch.Int(1000)) // nanoseconds before
		}
	case regExact:
		d = 0
	case regJustPast:
		d = int64(1+ch.Int(3))*1_000_000_000 + sub
		if ch.Bool(1, 3) {
			d = int64(1 + ch.Int(1000))
		}
	case regFarPast:
		d = tpNs + int64(ch.Int(1000))*1_000_000_000 + sub
	}
	return time.Unix(0, tsNs+tpNs+d).UTC()
}

func runC14(c *core.Ctx) {
	ch := c.Ch
	w, err := world.NewWorld(c.Ch, world.WorldConfig{ChainNames: []string{"chainaaaa", "chainbbbb"}})
	c.Check(err)
	c.W = w
	A, B := w.Nodes[0], w.Nodes[1]
	tp := []time.Duration{3 * time.Minute, 20 * time.Minute, 2 * time.Hour, 36 * time.Hour, 14 * 24 * time.Hour}[ch.Int(5)]
	tp += time.Duration(ch.Int(1000)) * time.Millisecond
	p := world.DefaultClientParams()
	p.TrustingPeriod, p.Unbonding = tp, tp*2
	c.Check(w.CreateClient(A, B, p))
	c.Check(w.CreateClient(B, A, world.DefaultClientParams()))
	for _, n := range w.Nodes {
		c.Check(w.SetRules(n, []string{"*,*,*"}))
		_, err := w.Block(n, nil, world.NoCrash)
		c.Check(err)
	}
	e := scen.NewEngine(c, w)
	uni := scen.DefaultUniverse()
	uni.RelayPct, uni.BadReceiverPct = 0, 0
	e.SeedTokens(uni, 3)
	observations := 0

	// ------------------------------------------------------------ Tendermint
	tmRounds := 1 + ch.Int(3)
	for round := 0; round < tmRounds; round++ {
		c.Step("c14-tm")
		if A.ClientStatus(B.Name) != exported.Active {
			break
		}
		// make pending work towards A proven from B: a packet B->A and an ack for a packet A->B
		for tries := 0; tries < 12; tries++ {
			haveRecv, haveAck := false, false
			for _, it := range e.Pending() {
				if it.Target == A.Name && it.On == B.Name {
					haveRecv = haveRecv || it.Kind == scen.KRecv
					haveAck = haveAck || it.Kind == scen.KAck
				}
			}
			if haveRecv && haveAck {
				break
			}
			if !haveRecv {
				c14Send(c, e, B, A)
			}
			if !haveAck {
				c14Send(c, e, A, B)
				for _, it := range e.Pending() {
					if it.Kind == scen.KRecv && it.Target == B.Name {
						e.Deliver(it, w.Relayers[0])
					}
				}
			}
		}
		// bring A's client of B up to date, build the genuine messages, then produce one more B block for the later update
		_, err := w.Block(B, nil, world.NoCrash)
		c.Check(err)
		e.Update(A, B, w.Relayers[0])
		latest, _ := w.ClientLatest(A, B.Name)
		var built []*scen.Sent
		for _, it := range e.Pending() {
			if it.Target == A.Name && it.On == B.Name && it.Kind != scen.KClean && it.Height < int64(latest.RevisionHeight) && len(built) < 2 {
				dup := false
				for _, b := range built {
					dup = dup || b.Item.Kind == it.Kind
				}
				if !dup {
					built = append(built, e.Build(it, int64(latest.RevisionHeight)-1, w.Users[len(built)]))
				}
			}
		}
		_, err = w.Block(B, nil, world.NoCrash)
		c.Check(err)
		upd, err := w.MsgUpdate(A, B, B.Height, w.Relayers[0])
		c.Check(err)
		cons, ok := A.ConsensusState(B.Name, latest)
		if !ok {
			c.Failf("no consensus state at latest height")
		}
		ts := int64(cons.GetTimestamp())
		reg := c14Region(ch.Pick([]int{3, 3, 2, 3, 2}))
		target := c14Target(c, ts, int64(tp), reg)
		if !target.After(w.TimeOn(A).Add(3 * time.Second)) {
			w.Stats.Inc("tm-target-in-the-past")
			continue
		}
		verdict := c14Verdict(big.NewInt(target.UnixNano()), big.NewInt(ts), big.NewInt(int64(tp)), 1)
		w.JumpTo(A, target)
		// Status on the state the block will see, at the block's time
		ctx := A.QueryCtxAt(target)
		cs, _ := A.App.TIBCKeeper.ClientKeeper.GetClientState(ctx, B.Name)
		status := cs.Status(ctx, A.App.TIBCKeeper.ClientKeeper.ClientStore(ctx, B.Name), A.App.AppCodec())
		var reqs []*world.TxReq
		for _, s := range built {
			reqs = append(reqs, &world.TxReq{Signer: s.Signer, Msgs: []sdk.Msg{s.Msg}, Meta: s, Label: s.Item.String()})
		}
		reqs = append(reqs, &world.TxReq{Signer: w.Relayers[0], Msgs: []sdk.Msg{upd}, Label: "update(" + B.Name + ")"})
		rec, err := w.Block(A, reqs, world.NoCrash)
		c.Check(err)
		if !rec.Time.Equal(target) {
			c.Failf("clock jump missed: block time %v, target %v", rec.Time, target)
		}
		observations++
		w.Stats.Inc("tm-" + c14RegionNames[reg])
		if reg == regExact {
			w.Stats.Inc("probe-now-eq-expiry")
		}
		w.Log.Add("tm round: tp=%v region=%s verdict=%d status=%s results=%v", tp, c14RegionNames[reg], verdict, status, codes(rec))
		c.Op(fmt.Sprintf("tm/%s/%s", c14RegionNames[reg], status))
		active := status == exported.Active
		c14Judge(c, "tendermint", "status", verdict, active, fmt.Sprintf("Status()=%s at age-tp=%v", status, target.Sub(time.Unix(0, ts+int64(tp)))))
		first := active
		for i, r := range rec.Results {
			what := "update"
			if i < len(built) {
				what = []string{"recv", "ack", "clean"}[built[i].Item.Kind]
			}
			c14Judge(c, "tendermint", what, verdict, r.OK(), fmt.Sprintf("%s result code=%d %s (Status()=%s, region %s)", what, r.Code, world.Short(r.Log, 100), status, c14RegionNames[reg]))
			if verdict == 0 && r.OK() != first {
				c.Violate("C14/tendermint/inconsistent-at-boundary/"+what, "exactly at expiry Status() says active=%v but %s ok=%v", first, what, r.OK())
			}
		}
		if status != exported.Active {
			break
		}
	}

	// ------------------------------------------------------------ BSC and ETH (second granularity)
	for _, kind := range []string{"bsc", "eth"} {
		c.Step("c14-" + kind)
		nowS := uint64(w.TimeOn(A).Unix())
		ahead := uint64(120 + ch.Int(4000)) // the client expires this many seconds from now
		var next func() *world.TxResult
		var latestTs func() uint64
		var tpS uint64
		name := kind + "-chain1"
		if kind == "bsc" {
			// header timestamps start 600 s before now and advance 3 s per header
			f := AddBscClient(c, w, A, name, 1)
			ts0 := f.Chain.M.Latest.Time
			tpS = nowS - ts0 + ahead
			c14SetTrustingPeriod(c, A, name, tpS)
			next = func() *world.TxResult { _, r := f.Next(c, w, nil); return r }
			latestTs = func() uint64 { return f.Chain.M.Latest.Time }
		} else {
			f := AddEthClient(c, w, A, name, 1)
			tpS = nowS - f.Tip.H.Time + ahead
			c14SetTrustingPeriod(c, A, name, tpS)
			next = func() *world.TxResult { _, r := f.Next(c, w, nil); return r }
			latestTs = func() uint64 { return f.Tip.H.Time }
		}
		rounds := 1 + ch.Int(3)
		for round := 0; round < rounds; round++ {
			ts := latestTs()
			reg := c14Region(ch.Pick([]int{3, 3, 2, 3, 2}))
			target := c14Target(c, int64(ts)*1e9, int64(tpS)*1e9, reg)
			if !target.After(w.TimeOn(A).Add(3 * time.Second)) {
				w.Stats.Inc(kind + "-target-in-the-past")
				continue
			}
			verdict := c14Verdict(big.NewInt(target.UnixNano()), new(big.Int).SetUint64(ts), new(big.Int).SetUint64(tpS), 1e9)
			w.JumpTo(A, target)
			ctx := A.QueryCtxAt(target)
			cs, _ := A.App.TIBCKeeper.ClientKeeper.GetClientState(ctx, name)
			status := cs.Status(ctx, A.App.TIBCKeeper.ClientKeeper.ClientStore(ctx, name), A.App.AppCodec())
			r := next()
			if r == nil {
				break
			}
			if !A.TimeAt(r.Height).Equal(target) {
				c.Failf("clock jump missed for %s", kind)
			}
			observations++
			w.Stats.Inc(kind + "-" + c14RegionNames[reg])
			w.Log.Add("%s round: tp=%ds region=%s verdict=%d status=%s update=%d", kind, tpS, c14RegionNames[reg], verdict, status, r.Code)
			c.Op(fmt.Sprintf("%s/%s/%s", kind, c14RegionNames[reg], status))
			active := status == exported.Active
			c14Judge(c, kind, "status", verdict, active, fmt.Sprintf("Status()=%s with newest header time %d s, trusting period %d s, block time %s", status, ts, tpS, target.Format(time.RFC3339Nano)))
			c14Judge(c, kind, "update", verdict, r.OK(), fmt.Sprintf("valid MsgUpdateClient code=%d %s (Status()=%s, region %s)", r.Code, world.Short(r.Log, 100), status, c14RegionNames[reg]))
			if verdict == 0 && r.OK() != active {
				c.Violate("C14/"+kind+"/inconsistent-at-boundary/update", "inside the open second at expiry Status() says active=%v but update ok=%v", active, r.OK())
			}
			if !r.OK() {
				break
			}
		}
	}
	w.Stats.Add("probe-observations", observations)
	c.Nontrivial = observations >= 3
}

func codes(rec *world.BlockRecord) []uint32 {
	var out []uint32
	for _, r := range rec.Results {
		out = append(out, r.Code)
	}
	return out
}

// c14Judge compares one observation ("works" = Active / accepted) with the verdict.
func c14Judge(c *core.Ctx, typ, what string, verdict int, works bool, detail string) {
	switch {
	case verdict < 0 && works:
		sig := "C14/" + typ + "/" + what + "/"
		if what == "status" {
			sig += "active-although-expired"
		} else {
			sig += "accepted-although-expired"
		}
		c.Violate(sig, "newest consensus state is older than the trusting period, yet: %s", detail)
	case verdict > 0 && !works:
		sig := "C14/" + typ + "/" + what + "/"
		if what == "status" {
			sig += "expired-although-active"
		} else {
			sig += "refused-although-active"
		}
		c.Violate(sig, "newest consensus state is inside the trusting period, yet: %s", detail)
	}
}

// c14SetTrustingPeriod rewrites the trusting period of a freshly created BSC / ETH client (set-up).
func c14SetTrustingPeriod(c *core.Ctx, n *world.Node, name string, tp uint64) {
	ctx := n.SetupCtx()
	cs, ok := n.App.TIBCKeeper.ClientKeeper.GetClientState(ctx, name)
	if !ok {
		c.Failf("client %s not found", name)
	}
	switch x := cs.(type) {
	case interface{ GetLatestHeight() exported.Height }:
		_ = x
	}
	if err := setTrustingPeriod(cs, tp); err != nil {
		c.Check(err)
	}
	n.App.TIBCKeeper.ClientKeeper.SetClientState(ctx, name, cs)
	_, err := c.W.Block(n, nil, world.NoCrash)
	c.Check(err)
}

func c14Send(c *core.Ctx, e *scen.Engine, from, to *world.Node) {
	users := map[string]*world.Account{}
	for _, u := range e.W.Users {
		users[u.Addr.String()] = u
	}
	nfts, _ := from.NFTSnapshot()
	for _, t := range nfts {
		if users[t.Owner] != nil {
			e.NftTransfer(from, users[t.Owner], t.Class, t.ID, e.W.Users[0].Addr.String(), to.Name, "")
			return
		}
	}
	bals, _ := from.MTSnapshot()
	for _, b := range bals {
		if users[b.Owner] != nil && b.Amount > 0 {
			e.MtTransfer(from, users[b.Owner], b.Class, b.ID, 1, e.W.Users[0].Addr.String(), to.Name, "")
			return
		}
	}
	// nothing to send: mint
	e.MintNFT(from, e.W.Users[0], "kitty", fmt.Sprintf("n%d", e.W.Blocks), e.W.Users[0])
	e.IssueNFTDenom(from, e.W.Users[0], "kitty")
}

var _ = clienttypes.NewHeight
