package props

import (
	"context"
	"encoding/json"
	"fmt"
	"os"
	"os/exec"
	"path/filepath"
	"strings"

	abci "github.com/cometbft/cometbft/abci/types"
	sdk "github.com/cosmos/cosmos-sdk/types"

	clienttypes "github.com/bianjieai/tibc-go/modules/tibc/core/02-client/types"
	routingtypes "github.com/bianjieai/tibc-go/modules/tibc/core/26-routing/types"
	ethclient "github.com/bianjieai/tibc-go/modules/tibc/light-clients/09-eth/types"

	"tibcsim/chooser"
	"tibcsim/core"
	"tibcsim/foreign/eth"
	"tibcsim/scen"
	"tibcsim/world"
)

// C20: state transitions are deterministic.
//
// A seeded history (genesis, ordered txs, block times) is executed several
// times: in this process, again in this process with CheckTx / Simulate /
// query noise at every ABCI boundary and crash/restarts in between, and in
// separate OS processes under other GOMAXPROCS, TZ, HOME and TMPDIR settings.
// Every execution must produce byte-identical app hashes and tx results
// (code, codespace, gas, all events; logs under their own signature).

func init() {
	register(&core.Profile{Name: "c20-reexec", Property: "C20", Weight: 12, Run: runC20,
		Doc: "history with NFT/MT traffic on 3 chains (relay routes, cleans, error acks), a governance rule change and header updates of Tendermint, BSC and ETH clients; re-executed in-process with ABCI noise and crash/restart, and in 2 fresh OS processes (GOMAXPROCS 1 and 16, other TZ/HOME/TMPDIR)"})
	register(&core.Profile{Name: "c20-eth-seal-env", Property: "C20", Weight: 1, Run: runC20Seal,
		Doc: "ETH client fed recorded mainnet headers with the real ethash seal verification, executed in fresh OS processes whose temporary directory is usable, missing, or not writable (disk faults of the host environment)"})
}

// C20Options of one execution of a scenario.
type C20Options struct {
	Noise    bool
	Restarts bool
}

// C20Scenarios are the history generators (name -> run); they return the block prints.
var C20Scenarios = map[string]func(c *core.Ctx, o C20Options) []string{
	"traffic": c20Traffic,
	"ethseal": c20EthSeal,
}

func c20Noise(w *world.World) func(n *world.Node, when string) {
	k := 0
	return func(n *world.Node, when string) {
		k++
		// queries
		n.App.TIBCKeeper.ClientKeeper.GetAllGenesisClients(n.QueryCtx())
		_, _ = n.App.Query(context.Background(), &abci.RequestQuery{Path: "store/tibc/key", Data: []byte("clients"), Height: n.Height, Prove: true})
		// CheckTx with an old raw tx (stale sequence) and with garbage
		if len(n.History) > 0 {
			for i := len(n.History) - 1; i >= 0 && i > len(n.History)-4; i-- {
				for _, raw := range n.History[i].Txs {
					_, _ = n.App.CheckTx(&abci.RequestCheckTx{Tx: raw, Type: abci.CheckTxType_New})
					_, _, _ = n.App.Simulate(raw)
				}
			}
		}
		_, _ = n.App.CheckTx(&abci.RequestCheckTx{Tx: []byte{byte(k), 1, 2, 3}, Type: abci.CheckTxType_New})
		w.Stats.Inc("noise-" + when)
	}
}

func c20Traffic(c *core.Ctx, o C20Options) []string {
	ch := c.Ch
	ethclient.VerifSkipSeal = true
	w, e := buildTokenWorld(c, 3)
	w.KeepPrints = true
	if o.Noise {
		w.Noise = c20Noise(w)
	}
	uni := scen.DefaultUniverse()
	e.SeedTokens(uni, 2)
	host := w.Nodes[0]
	bf := AddBscClient(c, w, host, "bsc-chain1", 0)
	ef := AddEthClient(c, w, host, "eth-chain1", 0)
	steps := (50 + ch.Int(50)) * c.Scale
	govDone := false
	for i := 0; i < steps; i++ {
		c.Step("c20")
		if o.Restarts && i%17 == 9 {
			n := w.Nodes[i%len(w.Nodes)]
			_, err := w.Block(n, nil, world.CrashAfterCommit)
			c.Check(err)
			w.Stats.Inc("restart")
		} else if !o.Restarts && i%17 == 9 {
			// the same empty block without the crash, so that histories stay identical
			_, err := w.Block(w.Nodes[i%len(w.Nodes)], nil, world.NoCrash)
			c.Check(err)
		}
		switch ch.Pick([]int{30, 40, 8, 8, 8, 3, 3}) {
		case 0:
			e.RandomUserOp(w.Nodes[ch.Int(len(w.Nodes))], uni)
		case 1:
			if it := pickPending(c, e); it != nil {
				e.Deliver(it, w.Relayers[ch.Int(2)])
			}
		case 2:
			userClean(c, e, w.Nodes[ch.Int(len(w.Nodes))])
		case 3:
			bf.Next(c, w, nil)
		case 4:
			ef.Next(c, w, nil)
		case 5:
			if !govDone {
				govDone = true
				msg := &routingtypes.MsgSetRoutingRules{Title: "t", Description: "d", Rules: []string{"*,*,NFT", "chainaaaa,*,MT"}, Authority: world.GovAuthority()}
				_, err := w.GovExec(w.Nodes[1], []sdk.Msg{msg}, "rules")
				c.Check(err)
			}
		case 6: // multi-tx block
			n := w.Nodes[ch.Int(len(w.Nodes))]
			var reqs []*world.TxReq
			for _, it := range e.Pending() {
				if it.Target == n.Name && len(reqs) < 3 {
					if s := e.Prepare(it, w.Relayers[len(reqs)%2]); s != nil {
						dup := false
						for _, r := range reqs {
							if r.Signer == s.Signer {
								dup = true
							}
						}
						if !dup {
							reqs = append(reqs, &world.TxReq{Signer: s.Signer, Msgs: []sdk.Msg{s.Msg}, Label: "multi:" + it.String()})
						}
					}
				}
			}
			if len(reqs) > 0 {
				_, err := w.Block(n, reqs, world.NoCrash)
				c.Check(err)
			}
		}
	}
	if c.W == nil || c.W == w {
		c.W = w
	}
	return w.Prints
}

// c20EthSeal: ETH client with the real seal verification on recorded mainnet headers.
func c20EthSeal(c *core.Ctx, o C20Options) []string {
	ethclient.VerifSkipSeal = false
	defer func() { ethclient.VerifSkipSeal = true }()
	hs, err := eth.MainnetHeaders()
	c.Check(err)
	root := hs[0]
	w, err := world.NewWorld(c.Ch, world.WorldConfig{ChainNames: []string{"chainaaaa"}})
	c.Check(err)
	c.W = w
	w.KeepPrints = true
	n := w.Nodes[0]
	ef := AddEthClient(c, w, n, "eth-chain1", 0)
	ethclient.VerifSkipSeal = false
	_ = root
	k := 1 + c.Ch.Int(2)
	for i := 1; i <= k && i < len(hs); i++ {
		wire := c18ToWire(eth.NewSubmission(hs[i], "mainnet"))
		msg, err := clienttypes.NewMsgUpdateClient(ef.Name, wire, w.Relayers[0].Addr)
		c.Check(err)
		r, err := w.One(n, &world.TxReq{Signer: w.Relayers[0], Msgs: []sdk.Msg{msg}, Label: fmt.Sprintf("update(eth mainnet #%d)", hs[i].Number.Uint64())})
		c.Check(err)
		w.Log.Add("mainnet header %d: code=%d %s", hs[i].Number.Uint64(), r.Code, world.Short(r.Log, 80))
	}
	return w.Prints
}

// C20ChildSpec is handed to a child process through a file.
type C20ChildSpec struct {
	Scenario string        `json:"scenario"`
	Tape     *chooser.Tape `json:"tape"`
	Options  C20Options    `json:"options"`
	Scale    int           `json:"scale,omitempty"`
}

// C20Child executes a spec and returns the prints (used by `tibcsim c20child`).
func C20Child(spec *C20ChildSpec) ([]string, error) {
	f, ok := C20Scenarios[spec.Scenario]
	if !ok {
		return nil, fmt.Errorf("unknown scenario %q", spec.Scenario)
	}
	var prints []string
	p := &core.Profile{Name: "c20-child", Property: "C20", Scale: spec.Scale, Run: func(c *core.Ctx) { prints = f(c, spec.Options) }}
	res := core.Execute(p, chooser.NewReplayer(spec.Tape), nil, "child", false)
	if res.Err != "" {
		return nil, fmt.Errorf("%s", res.Err)
	}
	return prints, nil
}

func comparePrints(c *core.Ctx, what string, a, b []string) {
	n := len(a)
	if len(b) < n {
		n = len(b)
	}
	for i := 0; i < n; i++ {
		if a[i] == b[i] {
			continue
		}
		fa, fb := strings.Fields(a[i]), strings.Fields(b[i])
		kind := "results-differ"
		if len(fa) == 4 && len(fb) == 4 {
			switch {
			case fa[1] != fb[1]:
				kind = "app-hash-differs"
			case fa[2] != fb[2]:
				kind = "results-differ"
			case fa[3] != fb[3]:
				kind = "log-differs"
			}
		}
		c.Violate("C20/"+kind+"/"+what, "execution %q diverges from the first execution at block %d of the history:\nfirst:  %s\nsecond: %s", what, i, a[i], b[i])
		return
	}
	if len(a) != len(b) {
		c.Violate("C20/history-length-differs/"+what, "execution %q produced %d blocks, the first execution %d", what, len(b), len(a))
	}
}

// runChild executes the spec in a fresh OS process with the given environment.
func runChild(c *core.Ctx, spec *C20ChildSpec, env []string) ([]string, string) {
	dir, err := os.MkdirTemp("", "tibcsim-c20-")
	c.Check(err)
	defer os.RemoveAll(dir)
	bz, err := json.Marshal(spec)
	c.Check(err)
	path := filepath.Join(dir, "spec.json")
	c.Check(os.WriteFile(path, bz, 0o644))
	self, err := os.Executable()
	c.Check(err)
	cmd := exec.Command(self, "c20child", path)
	cmd.Env = append(os.Environ(), env...)
	out, err := cmd.Output()
	if err != nil {
		stderr := ""
		if ee, ok := err.(*exec.ExitError); ok {
			stderr = string(ee.Stderr)
		}
		c.Failf("c20 child failed: %v %s", err, world.Short(stderr, 400))
	}
	var lines []string
	for _, l := range strings.Split(string(out), "\n") {
		if strings.Contains(l, " app=") {
			lines = append(lines, l)
		}
	}
	return lines, string(out)
}

func runC20(c *core.Ctx) {
	first := c20Traffic(c, C20Options{})
	w1 := c.W
	tape := c.Ch.Tape().Clone()
	// (a)+(c)+(d): same process, fresh worlds, noise at ABCI boundaries, crash/restart in the middle
	var second []string
	opts := C20Options{Noise: true, Restarts: true}
	switch os.Getenv("VERIF_C20_OPTS") { // development aid: isolate a divergence
	case "noise":
		opts = C20Options{Noise: true}
	case "restarts":
		opts = C20Options{Restarts: true}
	case "none":
		opts = C20Options{}
	}
	p := &core.Profile{Name: "c20-inproc", Property: "C20", Scale: c.Scale, Run: func(cc *core.Ctx) { second = c20Traffic(cc, opts) }}
	res := core.Execute(p, chooser.NewReplayer(tape), c.Known, "inproc", false)
	if res.Err != "" {
		c.Failf("in-process re-execution failed: %s", res.Err)
	}
	for k, v := range res.Stats {
		w1.Stats[k] += v
	}
	w1.Stats.Inc("reexec-inprocess-noise-restart")
	comparePrints(c, "same-process-noise-restart", first, second)
	// (b): fresh OS processes under other runtime / environment settings
	spec := &C20ChildSpec{Scenario: "traffic", Tape: tape, Scale: c.Scale}
	third, _ := runChild(c, spec, []string{"GOMAXPROCS=1", "TZ=Pacific/Kiritimati", "HOME=/nonexistent-home", "TMPDIR=/nonexistent-tmp"})
	w1.Stats.Inc("reexec-process-gomaxprocs1")
	comparePrints(c, "other-process-gomaxprocs1-env", first, third)
	if c.Ch.Bool(1, 2) {
		spec.Options = C20Options{Noise: true}
		fourth, _ := runChild(c, spec, []string{"GOMAXPROCS=16", "TZ=America/St_Johns"})
		w1.Stats.Inc("reexec-process-gomaxprocs16-noise")
		comparePrints(c, "other-process-gomaxprocs16-noise", first, fourth)
	}
	c.W = w1
	w1.Log.Add("history of %d blocks re-executed; first print %s", len(first), firstOf(first))
	c.Nontrivial = len(first) >= 60
}

func firstOf(s []string) string {
	if len(s) == 0 {
		return ""
	}
	return s[len(s)-1]
}

func runC20Seal(c *core.Ctx) {
	// draw the tape in a cheap way: the scenario itself is executed only in children
	k := c.Ch.Int(2)
	tape := &chooser.Tape{Steps: []chooser.Step{{Kind: "init", Draws: []uint64{uint64(k)}}}}
	spec := &C20ChildSpec{Scenario: "ethseal", Tape: tape}
	good, err := os.MkdirTemp("", "tibcsim-tmp-ok-")
	c.Check(err)
	defer os.RemoveAll(good)
	ro, err := os.MkdirTemp("", "tibcsim-tmp-ro-")
	c.Check(err)
	defer func() { os.Chmod(ro, 0o755); os.RemoveAll(ro) }()
	c.Check(os.Chmod(ro, 0o555))
	w, err := world.NewWorld(c.Ch, world.WorldConfig{ChainNames: []string{"chainaaaa"}})
	c.Check(err)
	c.W = w
	base, out := runChild(c, spec, []string{"TMPDIR=" + good})
	if len(base) == 0 {
		c.Failf("no prints from the seal child: %s", world.Short(out, 300))
	}
	w.Stats.Inc("tmpdir-usable")
	missing, _ := runChild(c, spec, []string{"TMPDIR=/nonexistent-tibcsim-tmp"})
	w.Stats.Inc("fault-tmpdir-missing")
	comparePrints(c, "tmpdir-missing", base, missing)
	if os.Geteuid() != 0 { // root ignores directory permissions
		rof, _ := runChild(c, spec, []string{"TMPDIR=" + ro})
		w.Stats.Inc("fault-tmpdir-readonly")
		comparePrints(c, "tmpdir-readonly", base, rof)
	} else {
		// a file in place of the directory makes it unusable for everybody
		notdir := filepath.Join(good, "not-a-directory")
		c.Check(os.WriteFile(notdir, []byte("x"), 0o644))
		nd, _ := runChild(c, spec, []string{"TMPDIR=" + notdir})
		w.Stats.Inc("fault-tmpdir-not-a-directory")
		comparePrints(c, "tmpdir-not-a-directory", base, nd)
	}
	w.Log.Add("seal history: %d blocks, last %s", len(base), firstOf(base))
	c.Nontrivial = true
}
