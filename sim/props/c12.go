package props

import (
	"fmt"
	"strings"

	sdk "github.com/cosmos/cosmos-sdk/types"

	routingtypes "github.com/bianjieai/tibc-go/modules/tibc/core/26-routing/types"

	"tibcsim/core"
	"tibcsim/world"
)

// C12: routing rules mean exactly field-wise match with '*' wildcards.
//
// RoutingModel (from the statement): a rule is three comma-separated fields,
// each '*' or 1-64 characters of the identifier alphabet; a triple is
// authorised iff some stored rule matches it field by field ('*' = anything,
// otherwise identical string); no rules stored -> nothing authorised.

const idAlphabet = "abcdefghijklmnopqrstuvwxyzABCDEFGHIJKLMNOPQRSTUVWXYZ0123456789._+-#[]<>"

func validField(f string) bool {
	if f == "*" {
		return true
	}
	if len(f) < 1 || len(f) > 64 {
		return false
	}
	for _, r := range f {
		if !strings.ContainsRune(idAlphabet, r) {
			return false
		}
	}
	return true
}

func ruleValid(rule string) bool {
	fs := strings.Split(rule, ",")
	if len(fs) != 3 {
		return false
	}
	for _, f := range fs {
		if !validField(f) {
			return false
		}
	}
	return true
}

func rulesValid(rules []string) bool {
	for _, r := range rules {
		if !ruleValid(r) {
			return false
		}
	}
	return true
}

func ruleMatches(rule, s, d, p string) bool {
	fs := strings.Split(rule, ",")
	if len(fs) != 3 {
		return false
	}
	for i, v := range []string{s, d, p} {
		if fs[i] != "*" && fs[i] != v {
			return false
		}
	}
	return true
}

// RoutingAuthorised is the reference semantics.
func RoutingAuthorised(rules []string, s, d, p string) bool {
	for _, r := range rules {
		if ruleMatches(r, s, d, p) {
			return true
		}
	}
	return false
}

func init() {
	register(&core.Profile{Name: "c12-routing-rules", Property: "C12", Weight: 1, Run: runC12,
		Doc: "relay chain whose rule set is replaced several times by real governance proposals (valid and invalid syntax, fields full of regexp operator characters); after every change a batch of triples colliding with the rules up to one character is probed with Authenticate on committed state and compared with literal field-wise matching"})
}

var c12Atoms = []string{"chain-aaa", "chain+aa0", "chainaaa0", "chainnaa0", "ch[a-z]in1", "chazin1", "chain.bb2", "chainxbb2", "a+b", "aab", "a.b", "axb", "[ab]", "a", "b", "a[", "<x>", "x-y", "+a", "NFT", "MT", "tibcmock", "N.T", "NxT", "a-c", "[a-c]", "b#1", "x", "chain-bbb", "chain-ccc"}

func c12Field(c *core.Ctx) string {
	ch := c.Ch
	switch ch.Pick([]int{6, 2, 1}) {
	case 0:
		return c12Atoms[ch.Int(len(c12Atoms))]
	case 1:
		return "*"
	default: // random string over the alphabet, biased to operator characters
		n := 1 + ch.Int(4)
		ops := "+.[]-<>#_*ab"
		var sb strings.Builder
		for i := 0; i < n; i++ {
			sb.WriteByte(ops[ch.Int(len(ops))])
		}
		return sb.String()
	}
}

func c12Rule(c *core.Ctx, allowInvalid bool) string {
	ch := c.Ch
	if allowInvalid && ch.Bool(1, 5) {
		switch ch.Int(6) {
		case 0:
			return c12Field(c) + "," + c12Field(c) // two fields
		case 1:
			return c12Field(c) + "," + c12Field(c) + "," + c12Field(c) + "," + c12Field(c)
		case 2:
			return c12Field(c) + ",," + c12Field(c) // empty field
		case 3:
			return c12Field(c) + "," + c12Field(c) + ",a b" // invalid character
		case 4:
			return ""
		default:
			return c12Field(c) + "," + c12Field(c) + "," + strings.Repeat("a", 65)
		}
	}
	return c12Field(c) + "," + c12Field(c) + "," + c12Field(c)
}

// c12Triples builds probe triples from the rules' own fields (and one-char
// neighbours) so that matches and near misses are both frequent.
func c12Triple(c *core.Ctx, rules []string) (string, string, string) {
	ch := c.Ch
	pick := func(pos int) string {
		if len(rules) > 0 && ch.Bool(2, 3) {
			fs := strings.Split(rules[ch.Int(len(rules))], ",")
			if pos < len(fs) && fs[pos] != "*" && fs[pos] != "" && ch.Bool(3, 4) {
				return fs[pos]
			}
		}
		return c12Atoms[ch.Int(len(c12Atoms))]
	}
	return pick(0), pick(1), pick(2)
}

func runC12(c *core.Ctx) {
	ch := c.Ch
	w, err := world.NewWorld(c.Ch, world.WorldConfig{ChainNames: []string{"chain-rly"}})
	c.Check(err)
	c.W = w
	n := w.Nodes[0]
	// model's view of the stored rules, initialised from what genesis stored
	current, stored := n.App.TIBCKeeper.RoutingKeeper.GetRoutingRules(n.QueryCtx())
	probes, changes, mism := 0, 0, 0

	probe := func(k int) {
		ctx := n.QueryCtx()
		for i := 0; i < k; i++ {
			s, d, p := c12Triple(c, current)
			got := n.App.TIBCKeeper.RoutingKeeper.Authenticate(ctx, s, d, p)
			want := stored && RoutingAuthorised(current, s, d, p)
			probes++
			if got != want {
				mism++
				kind := "authorised-but-no-rule-matches"
				if want {
					kind = "refused-although-rule-matches"
				}
				c.Violate("C12/authenticate/"+kind, "rules %q: Authenticate(%q,%q,%q) = %v, literal field-wise matching says %v", current, s, d, p, got, want)
			}
		}
		w.Log.Add("probed %d triples against %q", k, current)
	}
	probe(20) // nothing stored: nothing authorised

	rounds := 2 + ch.Int(3)
	for r := 0; r < rounds; r++ {
		c.Step("c12-ruleset")
		nr := ch.Int(5)
		var rules []string
		for i := 0; i < nr; i++ {
			rules = append(rules, c12Rule(c, true))
		}
		valid := rulesValid(rules)
		msg := &routingtypes.MsgSetRoutingRules{Title: "t", Description: "d", Rules: rules, Authority: world.GovAuthority()}
		g, err := w.GovExec(n, []sdk.Msg{msg}, fmt.Sprintf("rules-%d", r))
		c.Check(err)
		executed := g.SubmitCode == 0 && g.Executed()
		w.Log.Add("ruleset %q valid=%v executed=%v submit=%d status=%v", rules, valid, executed, g.SubmitCode, g.Status)
		c.Op(fmt.Sprintf("rules valid=%v exec=%v", valid, executed))
		after, has := n.App.TIBCKeeper.RoutingKeeper.GetRoutingRules(n.QueryCtx())
		if valid && !executed {
			c.Violate("C12/ruleset/valid-refused", "valid rule set %q was not accepted (submit code %d %s, status %v %s)", rules, g.SubmitCode, world.Short(g.SubmitLog, 100), g.Status, g.FailReason)
		}
		if !valid && executed {
			c.Violate("C12/ruleset/invalid-accepted", "invalid rule set %q was accepted", rules)
		}
		if executed {
			changes++
			current, stored = rules, true
			if !has || strings.Join(after, "\x00") != strings.Join(rules, "\x00") {
				c.Violate("C12/ruleset/stored-differs", "accepted rule set %q but stored %q", rules, after)
			}
		} else if has != stored || (has && strings.Join(after, "\x00") != strings.Join(current, "\x00")) {
			c.Violate("C12/ruleset/refused-but-changed", "refused rule set %q changed the stored rules to %q", rules, after)
		}
		// cheap extra syntax probes on a branched context (nothing is written)
		for i := 0; i < 15; i++ {
			one := []string{c12Rule(c, true)}
			cctx, _ := n.QueryCtx().CacheContext()
			err := n.App.TIBCKeeper.RoutingKeeper.SetRoutingRules(cctx, one)
			if (err == nil) != rulesValid(one) {
				kind := "valid-refused"
				if err == nil {
					kind = "invalid-accepted"
				}
				c.Violate("C12/rule-syntax/"+kind, "rule %q: accepted=%v but syntax valid=%v", one[0], err == nil, rulesValid(one))
			}
		}
		probe(40 + ch.Int(40))
	}
	w.Stats.Add("probe-triples", probes)
	w.Stats.Add("rule-changes", changes)
	c.Nontrivial = changes >= 1 && probes >= 50
}
