package main

// Evidence texts of property C07 (runs after texts.go's init: file order).

func init() {
	evidenceRules["C07"] = "run had >= 6 MsgUpdateClient txs accepted by the Tendermint client and submitted >= 5 updates that the reference model (TmLightModel) classifies as must-reject"
	realVsStub["C07"] = "REAL: host SimApp chain behind ABCI (BaseApp, ante handler, msg server, 02-client keeper UpdateClient incl. relayer authorisation and Status check, 07-tendermint CheckHeaderAndUpdateState / pruning / store, cometbft light.Verify and commit verification as linked by tibc-go, IAVL/rootmulti over MemDB, crash/restart on the surviving MemDB). " +
		"MODEL: the counterparty is a seeded virtual Tendermint chain (foreign/tmchain): validator sets, powers, set changes, block times, app hashes and all validator keys are generated, headers and commits are built and signed with real ed25519 keys by the relayer actor (honest, partial and forged commits alike); there is no counterparty application or consensus. " +
		"ORACLE: model.TmLightModel, written from the statement and the Tendermint light-client spec with math/big arithmetic; it uses cometbft only for encodings (header hash, canonical vote sign bytes, validator-set Merkle hash) and ed25519 signature verification, not the light package or VerifyCommit*."
	assumptions["C07"] = []string{
		"cosmos-sdk BaseApp/store/IAVL, cometbft crypto (ed25519), header/vote/validator encodings and Merkle hashing are trusted as observed",
		"sampling, not enumeration: a clean batch is evidence, not proof",
		"torn or partial DB batch writes are not injected (state reaches the disk only at Commit)",
		"unconstrained (nothing asserted about accept vs reject): now == trusted/latest time + trusting period exactly; header time == now + max clock drift exactly; commits containing a present entry that is not a valid commit signature (nil vote, wrong signature, signature for another chain id) while the valid signatures alone pass every threshold; updates for a height that already has a stored consensus state (duplicate or conflicting header: the statement does not say whether re-submission or a fork header must be accepted, only that an invalid one must not)",
		"for an accepted conflicting header at an already stored height the stored state may be either the old or the header's state; anything else is a violation",
		"header time must be strictly after the trusted state's time (Tendermint light-client spec monotonic-time rule; the statement's 'newer than a stored trusted state')",
		"the header must carry the client's chain id (a header for another chain id is must-reject even if its revision number matches)",
		"trust-level numerators are kept small (q <= 60) and voting powers below 2^55, so int64 overflow inside cometbft's threshold computation is not probed; validator sets with duplicate members, zero powers or commits whose length differs from the set are not generated except through commit/validator-set swaps that are must-reject anyway",
		"client upgrades (stored states of several revisions) are out of scope: all stored states carry the revision of the client's chain id",
	}
}
