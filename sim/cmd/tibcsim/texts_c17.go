package main

// Evidence texts of property C17 (runs after texts.go: init order is by file name).

func init() {
	evidenceRules["C17"] = "run had >= 10 headers accepted by the BSC client through MsgUpdateClient and submitted >= 3 corrupted / misplaced headers (single-field corruptions, skipped, old or sibling headers)"
	realVsStub["C17"] = "REAL: the whole 08-bsc light client (header ValidateBasic, verifyHeader, verifyCascadingFields, verifySeal/ecrecover/sealHash, snapshot, update, recent-signer and pending-validator store, Initialize), 02-client keeper and msg server (relayer authorisation, status check, UpdateClient), the host SimApp chain behind ABCI (BaseApp, ante handler, IAVL over MemDB, crash = drop the app object, restart = new app on the surviving DB); real secp256k1 seals (go-ethereum crypto.Sign) over the Parlia seal hash. " +
		"STUB: the BSC chain is a seeded model that follows Parlia as stated (foreign/bsc: validator sets of 1-21 seeded keys, epoch announcements, in-/out-of-turn sealers subject to the recency rule), not a running BSC node: state/tx/receipt roots and blooms are pseudo-random bytes, no system contracts, no fork rules; the client is created by keeper call (world set-up), relayers are simulated actors producing real signed txs; CometBFT consensus/p2p is replaced by the simulator acting as proposer."
	assumptions["C17"] = append(assumptions["C17"],
		"rotation timing follows the Parlia reference implementation: the set listed in epoch block E is in force from block E+floor(N/2)+1 on (block E+floor(N/2) is the last one checked against the old set), N = size of the set in force at E",
		"every generated validator set satisfies floor(N/2) < epoch, so that an announced set always takes effect before the next epoch block (true on BSC: epoch 200, N <= 41)",
		"open points where nothing is asserted about the verdict: gas limit delta exactly at parent/256; header time <= parent time or far in the future (not part of the statement); an epoch block listing no validator; a sealer inside the floor(N/2) window whose entry the Parlia reference snapshot has already dropped because the set was smaller when that block was processed (only after the set has grown)",
		"mix digest != 0, uncle hash != keccak(rlp([])), gas limit > 2^63-1 or < 5000 and extra-data shorter than 32+65 bytes are treated as invalid (Parlia header rules) although the statement only says 'keeps gas limits within bounds'",
		"header times are realistic unix seconds (> 10^9): the client's Status() compares consensus timestamp + trusting period with the sub-second nanosecond part of the block time, so with tiny timestamps it would report Expired and every honest header would fail (that is property C14's subject, not C17's)",
		"the client starts from an epoch header (Initialize rejects anything else): low start heights are height 0 (genesis) and 1-3 epochs; the creator supplies the set in force and the sealers of the last floor(N/2)+1 blocks honestly",
		"secp256k1, keccak and RLP from go-ethereum v1.10.17 are trusted; the seal hash and block hash used by the model are computed independently of the client (go-ethereum core/types.Header)",
	)
}
