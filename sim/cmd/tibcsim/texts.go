package main

// Per-property texts that go into the evidence files.

var commonReal = "REAL: tibc core (02-client, 04-packet, 23-commitment, 24-host, 26-routing, msg server), NFT/MT transfer apps, light clients, simapp wiring, BaseApp/ABCI (FinalizeBlock, Commit, Query with ICS-23 proofs), ante handler and signature verification, x/gov, x/auth, x/bank, x/staking, irismod nft/mt, IAVL/rootmulti over MemDB (the MemDB object is the disk). STUB: CometBFT consensus/p2p (the simulator is the proposer; headers are built and signed with the chain's seeded validator keys), relayers/users/governance voters are simulated actors producing real signed txs."

var realVsStub = map[string]string{}

var evidenceRules = map[string]string{}

var assumptions = map[string][]string{}

func init() {
	for _, p := range []string{"C01", "C02", "C03", "C04", "C05", "C06", "C07", "C08", "C09", "C10", "C11", "C12", "C13", "C14", "C15", "C16", "C17", "C18", "C19", "C20"} {
		if realVsStub[p] == "" {
			realVsStub[p] = commonReal
		}
		if assumptions[p] == nil {
			assumptions[p] = []string{
				"cosmos-sdk BaseApp/store/IAVL, cometbft crypto and types, ics23 and irismod nft/mt are trusted as observed",
				"sampling, not enumeration: a clean batch is evidence, not proof",
				"torn or partial DB batch writes are not injected (state reaches the disk only at Commit)",
			}
		}
	}
	evidenceRules["C01"] = "run submitted >= 3 Byzantine (mutated) MsgRecvPacket messages derived from genuine ones"
	set := func(p, rule string, extra ...string) {
		if evidenceRules[p] == "" {
			evidenceRules[p] = rule
		}
		assumptions[p] = append(assumptions[p], extra...)
	}
	set("C02", "run replayed >= 3 logged receive messages (old bytes and proofs, or fresh proofs) among duplicated / reordered deliveries and cleans, and ended with the fault-free completeness tail",
		"completeness is asserted only when every precondition was observed by query just before submission (client Active, receipt absent, sequence above the clean point, commitment present, route registered)")
	set("C03", "run submitted >= 3 Byzantine (mutated or replayed) MsgAcknowledgement messages derived from genuine ones")
	set("C04", "run completed >= 3 cross-chain NFT transfers over adversarial class names",
		"receivers are user accounts or invalid strings, never a module account; every tx is executed in its own block so that token changes are attributable")
	set("C05", "run completed >= 3 cross-chain MT transfers with amounts from the boundary set {1,2,7,1000,2^32,2^63-1,2^63,2^64-2,2^64-1}",
		"which class on the receiving chain is the voucher of an asset is learnt from the first observed receive, never computed from the path")
	set("C06", "round-trip profile: >= 1 tour completed; refund profile: >= 1 error-acknowledged transfer checked",
		"failure points covered on the receiving side: invalid receiver, relay-chain refusal by rule, zero MT amount, and (hook H2, cooperative fault point) the first or second call of IssueDenom / MintNFT / TransferOwner / IssueMT / MintMT / TransferOwner(MT) failing on the destination")
	set("C09", "run executed >= 5 successful sends and >= 2 failing send txs in multi-tx / multi-msg blocks")
	set("C10", "run had >= 1 accepted clean and >= 1 relayed MsgRecvCleanPacket",
		"completeness of cleans is asserted on the source chain only (the statement gives only-if conditions elsewhere)")
	set("C11", "run pushed >= 3 packets through the relay chain (twin profile: always)")
	set("C12", "run changed the stored rule set >= 1 time through a real governance proposal and probed >= 50 triples",
		"what is sampled is predominantly the input space (rule strings and triples); the simulated part is the governance history that establishes the rules as chain state")
	set("C13", "run submitted >= 3 port / relay-chain edits of genuine messages")
	set("C14", "run made >= 3 observations (Status + update [+ receive + ack]) at forced block times around expiry",
		"BSC / ETH: Status() and MsgUpdateClient are observed; packet messages through an expired BSC/ETH client are not (their proof path is covered by C08)",
		"exact equality at the boundary (and the open second for second-granularity clients) is checked for consistency only")
	set("C15", "run had >= 2 refused and >= 1 effective privileged requests",
		"'another client type' payloads are BSC client states (08-bsc) offered to a Tendermint client")
	set("C16", "the re-imported shadow executed >= 10 shared blocks after the export",
		"irismod nft/mt genesis is outside TIBC: its differences are aligned silently and counted (irismod-genesis-keys-aligned); after the export the workload avoids operations that allocate new MT ids",
		"app hashes and gas legitimately differ after re-import and are not compared")
	set("C19", "run produced >= 5 failing transactions whose five-store dump was compared before/after",
		"failures after partial writes inside an application callback are injected through hook H2 (profile c19-keeper-faults): a cooperative fault point makes the k-th token-keeper call of the transfer module fail; with irismod's real keepers such late failures may be unreachable, so that configuration checks the module against its keeper interface contract")
	set("C20", "history of >= 60 blocks re-executed in-process (noise + restarts) and in >= 1 fresh OS process",
		"the race-detector tier is not built")
	set("C08", "run made >= 20 Verify* probes against client states built by real header updates")
}
