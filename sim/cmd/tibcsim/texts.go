package main

// Per-property texts that go into the evidence files.

var commonReal = "REAL: tibc core (02-client, 04-packet, 23-commitment, 24-host, 26-routing, msg server), NFT/MT transfer apps, light clients, simapp wiring, BaseApp/ABCI (FinalizeBlock, Commit, Query with ICS-23 proofs), ante handler and signature verification, x/gov, x/auth, x/bank, x/staking, irismod nft/mt, IAVL/rootmulti over MemDB (the MemDB object is the disk). STUB: CometBFT consensus/p2p (the simulator is the proposer; headers are built and signed with the chain's seeded validator keys), relayers/users/governance voters are simulated actors producing real signed txs."

var realVsStub = map[string]string{}

var evidenceRules = map[string]string{}

var assumptions = map[string][]string{}

func init() {
	for _, p := range []string{"C01", "C02", "C03", "C04", "C05", "C06", "C07", "C08", "C09", "C10", "C11", "C12", "C13", "C14", "C15", "C16", "C17", "C18", "C19", "C20"} {
		if realVsStub[p] == "" {
			realVsStub[p] = commonReal
		}
		if assumptions[p] == nil {
			assumptions[p] = []string{
				"cosmos-sdk BaseApp/store/IAVL, cometbft crypto and types, ics23 and irismod nft/mt are trusted as observed",
				"sampling, not enumeration: a clean batch is evidence, not proof",
				"torn or partial DB batch writes are not injected (state reaches the disk only at Commit)",
			}
		}
	}
	evidenceRules["C01"] = "run submitted >= 3 Byzantine (mutated) MsgRecvPacket messages derived from genuine ones"
}
