package main

import (
	"fmt"
	"os"

	sdk "github.com/cosmos/cosmos-sdk/types"
	nfttypes "mods.irisnet.org/modules/nft/types"

	nfttransfer "github.com/bianjieai/tibc-go/modules/tibc/apps/nft_transfer/types"

	"tibcsim/chooser"
	"tibcsim/world"
)

func must(err error) {
	if err != nil {
		fmt.Println("ERR", err)
		os.Exit(2)
	}
}

func main() {
	ch := chooser.NewGenerator(1)
	w, err := world.NewWorld(ch, world.WorldConfig{ChainNames: []string{"chain-aaa", "chain-bbb"}})
	must(err)
	must(w.ConnectAll(world.DefaultClientParams()))
	a, b := w.Nodes[0], w.Nodes[1]
	u := w.Users[0]
	r, err := w.One(a, &world.TxReq{Signer: u, Msgs: []sdk.Msg{nfttypes.NewMsgIssueDenom("kitty", "kitty", "", u.Addr.String(), "", false, false, "", "", "", "")}, Label: "issue"})
	must(err)
	fmt.Println("issue", r.Code, r.Log)
	r, err = w.One(a, &world.TxReq{Signer: u, Msgs: []sdk.Msg{nfttypes.NewMsgMintNFT("aaa", "kitty", "", "uri", "", "", u.Addr.String(), u.Addr.String())}, Label: "mint"})
	must(err)
	fmt.Println("mint", r.Code, r.Log)
	r, err = w.One(a, &world.TxReq{Signer: u, Msgs: []sdk.Msg{nfttransfer.NewMsgNftTransfer("kitty", "aaa", u.Addr.String(), w.Users[1].Addr.String(), b.Name, "", "")}, Label: "xfer"})
	must(err)
	fmt.Println("xfer", r.Code, r.Log)
	evs := world.ParsePacketEvents(r.Events)
	fmt.Printf("%+v\n", evs)
	p := evs[0].Packet
	_, err = w.Block(a, nil, world.NoCrash)
	must(err)
	ur, err := w.SyncClient(b, a, w.Relayers[0])
	must(err)
	fmt.Println("update", ur.Code, ur.Log)
	msg, err := w.MsgRecv(p, a, r.Height, w.Relayers[0])
	must(err)
	rr, err := w.One(b, &world.TxReq{Signer: w.Relayers[0], Msgs: []sdk.Msg{msg}, Label: "recv"})
	must(err)
	fmt.Println("recv", rr.Code, rr.Log)
	fmt.Printf("%+v\n", world.ParsePacketEvents(rr.Events))
	fmt.Println(w.Log.Hash())
}
