// tibcsim: deterministic simulation checker for the tibc-go properties.
//
//	tibcsim check <property> <quick|thorough>   orchestrates worker processes, writes evidence
//	tibcsim worker ...                          (internal) runs a slice of the seed batch
//	tibcsim replay <file>                       re-executes a replay file
//	tibcsim run <profile> <seed>                one run, verbose
//	tibcsim list                                properties and profiles
package main

import (
	"bufio"
	"encoding/json"
	"fmt"
	"os"
	"os/exec"
	"path/filepath"
	"runtime"
	"sort"
	"strconv"
	"strings"
	"sync"
	"time"

	"tibcsim/chooser"
	"tibcsim/core"
	"tibcsim/props"
)

var verifDir = envOr("VERIF_DIR", "/verif")

func envOr(k, d string) string {
	if v := os.Getenv(k); v != "" {
		return v
	}
	return d
}

func envInt(k string, d int) int {
	if v := os.Getenv(k); v != "" {
		if i, err := strconv.Atoi(v); err == nil {
			return i
		}
	}
	return d
}

func main() {
	if len(os.Args) < 2 {
		usage()
	}
	switch os.Args[1] {
	case "check":
		if len(os.Args) < 4 {
			usage()
		}
		os.Exit(cmdCheck(os.Args[2], os.Args[3]))
	case "worker":
		os.Exit(cmdWorker(os.Args[2:]))
	case "replay":
		if len(os.Args) < 3 {
			usage()
		}
		os.Exit(cmdReplay(os.Args[2]))
	case "run":
		if len(os.Args) < 4 {
			usage()
		}
		os.Exit(cmdRun(os.Args[2], os.Args[3]))
	case "list":
		for _, p := range props.Properties() {
			for _, pr := range props.Profiles(p) {
				fmt.Printf("%s\t%s\tweight=%d fault=%v\t%s\n", p, pr.Name, pr.Weight, pr.Fault, pr.Doc)
			}
		}
	case "c20child":
		if len(os.Args) < 3 {
			usage()
		}
		bz, err := os.ReadFile(os.Args[2])
		if err != nil {
			fmt.Fprintln(os.Stderr, err)
			os.Exit(2)
		}
		spec := &props.C20ChildSpec{}
		if err := json.Unmarshal(bz, spec); err != nil {
			fmt.Fprintln(os.Stderr, err)
			os.Exit(2)
		}
		prints, err := props.C20Child(spec)
		if err != nil {
			fmt.Fprintln(os.Stderr, err)
			os.Exit(2)
		}
		for _, l := range prints {
			fmt.Println(l)
		}
	case "selftest-determinism":
		os.Exit(cmdSelftestDeterminism(os.Args[2:]))
	default:
		usage()
	}
}

func usage() {
	fmt.Fprintln(os.Stderr, "usage: tibcsim check <prop> <quick|thorough> | replay <file> | run <profile> <seed> | list | selftest-determinism [props...]")
	os.Exit(2)
}

// profileFor maps a run index to a profile by weight (deterministic).
func profileFor(ps []*core.Profile, idx uint64) *core.Profile {
	total := 0
	for _, p := range ps {
		total += p.Weight
	}
	v := int(idx % uint64(total))
	for _, p := range ps {
		if v < p.Weight {
			return p
		}
		v -= p.Weight
	}
	return ps[0]
}

func loadKnown(prop string) (*core.FindingsFile, map[string]bool) {
	ff, err := core.LoadFindings(filepath.Join(verifDir, "known_findings.json"))
	if err != nil {
		fmt.Fprintln(os.Stderr, "cannot read known_findings.json:", err)
		os.Exit(2)
	}
	return ff, ff.OpenFor(prop)
}

// ---------------------------------------------------------------- worker

func cmdWorker(args []string) int {
	// worker <prop> <seed> <i> <n> <deadlineUnix> <maxRuns> <tier>
	if len(args) < 7 {
		return 2
	}
	prop := args[0]
	seed, _ := strconv.ParseUint(args[1], 10, 64)
	wi, _ := strconv.Atoi(args[2])
	wn, _ := strconv.Atoi(args[3])
	dl, _ := strconv.ParseInt(args[4], 10, 64)
	maxRuns, _ := strconv.Atoi(args[5])
	tier := args[6]
	deadline := time.Unix(dl, 0)
	ps := props.ProfilesFor(prop, tier)
	if len(ps) == 0 {
		fmt.Fprintln(os.Stderr, "no profiles for", prop)
		return 2
	}
	_, known := loadKnown(prop)
	out := bufio.NewWriter(os.Stdout)
	defer out.Flush()
	enc := json.NewEncoder(out)
	for idx := uint64(wi); int(idx) < maxRuns; idx += uint64(wn) {
		if time.Now().After(deadline) {
			break
		}
		p := profileFor(ps, idx)
		rs := chooser.Mix(seed, p.Name, idx)
		res := core.Execute(p, chooser.NewGenerator(rs), known, tier, idx < 2)
		res.Seed = rs
		if res.Viol == nil && res.Err == "" {
			res.Tape = nil
			if idx >= 2 {
				res.Trace = nil
			}
		}
		if err := enc.Encode(res); err != nil {
			return 2
		}
		out.Flush()
	}
	return 0
}

// ---------------------------------------------------------------- check

type agg struct {
	runs         int
	nontrivial   int
	distinct     map[string]bool
	shapes       map[string]bool
	grams        map[string]bool
	stats        map[string]int
	knownHits    map[string]int
	perProfile   map[string]int
	simSeconds   float64
	steps        int
	blocks       int
	txs          int
	samples      []interface{}
	violations   []*core.Result
	errors       []*core.Result
	wallMsInRuns int64
}

func cmdCheck(prop, tier string) int {
	start := time.Now()
	ps := props.ProfilesFor(prop, tier)
	if len(ps) == 0 {
		fmt.Fprintln(os.Stderr, "unknown property / no profiles:", prop)
		return 2
	}
	seed := uint64(envInt("VERIF_SEED", 1))
	budget := envInt("VERIF_BUDGET_S", map[string]int{"quick": 40, "thorough": 900}[tier])
	if budget == 0 {
		budget = 40
	}
	workers := envInt("VERIF_WORKERS", runtime.NumCPU())
	maxRuns := envInt("VERIF_MAX_RUNS", 1<<30)
	fmt.Printf("tibcsim check property=%s tier=%s VERIF_SEED=%d budget=%ds workers=%d\n", prop, tier, seed, budget, workers)

	ff, known := loadKnown(prop)
	exit := 0

	// 1. committed replays of known findings
	reproduced := []string{}
	a0fixed := 0 // replays of fixed findings re-run
	for _, f := range ff.Findings {
		if f.Property != prop {
			continue
		}
		path := filepath.Join(verifDir, f.Replay)
		rf, err := core.ReadReplay(path)
		if err != nil {
			fmt.Fprintln(os.Stderr, "cannot read finding replay:", err)
			return 2
		}
		p := props.Find(rf.Profile)
		if p == nil {
			fmt.Fprintln(os.Stderr, "finding replay names unknown profile", rf.Profile)
			return 2
		}
		// the finding's own signature must not be suppressed while replaying it
		// (other listed signatures of the property, open or fixed, are passed through so
		// that this replay can reach its own)
		k2 := map[string]bool{}
		for _, o := range ff.Findings {
			if o.Property == prop && o.Signature != f.Signature {
				k2[o.Signature] = true
			}
		}
		res := core.Execute(p, chooser.NewReplayer(rf.Tape), k2, "replay", false)
		if res.Err != "" {
			fmt.Fprintf(os.Stderr, "finding replay %s: machinery error: %s\n", f.Replay, res.Err)
			return 2
		}
		hit := res.Viol != nil && res.Viol.Signature == f.Signature
		switch {
		case hit && f.Status == "open":
			fmt.Printf("KNOWN-FINDING: property=%s %s %s\n", prop, f.Signature, f.WhatFails)
			reproduced = append(reproduced, f.Signature)
		case hit && f.Status == "fixed":
			fmt.Printf("VIOLATION property=%s replay=%s\n", prop, path)
			fmt.Printf("  (fixed finding %s is back: %s)\n", f.Signature, res.Viol.Detail)
			exit = 1
		case !hit && f.Status == "open":
			fmt.Printf("NOTE: open finding %s did not reproduce from %s (repaired?)\n", f.Signature, f.Replay)
		}
		if res.Viol != nil && res.Viol.Signature != f.Signature {
			// the recorded history now ends in a violation that is listed nowhere: report it
			fmt.Printf("VIOLATION property=%s replay=%s\n", prop, path)
			fmt.Printf("  (replay of %s now ends in %s: %s)\n", f.Signature, res.Viol.Signature, res.Viol.Detail)
			exit = 1
		}
		if f.Status == "fixed" {
			a0fixed++
		}
	}

	// 2. exploration
	a := &agg{distinct: map[string]bool{}, shapes: map[string]bool{}, grams: map[string]bool{}, stats: map[string]int{}, knownHits: map[string]int{}, perProfile: map[string]int{}}
	deadline := time.Now().Add(time.Duration(budget) * time.Second)
	self, _ := os.Executable()
	var mu sync.Mutex
	var wg sync.WaitGroup
	workerFail := false
	for i := 0; i < workers; i++ {
		wg.Add(1)
		go func(i int) {
			defer wg.Done()
			cmd := exec.Command(self, "worker", prop, fmt.Sprint(seed), fmt.Sprint(i), fmt.Sprint(workers), fmt.Sprint(deadline.Unix()), fmt.Sprint(maxRuns), tier)
			cmd.Env = append(os.Environ(), "GOMAXPROCS=2")
			cmd.Stderr = os.Stderr
			stdout, err := cmd.StdoutPipe()
			if err != nil {
				mu.Lock()
				workerFail = true
				mu.Unlock()
				return
			}
			if err := cmd.Start(); err != nil {
				mu.Lock()
				workerFail = true
				mu.Unlock()
				return
			}
			killer := time.AfterFunc(time.Until(deadline)+180*time.Second, func() { cmd.Process.Kill() })
			sc := bufio.NewScanner(stdout)
			sc.Buffer(make([]byte, 1<<20), 1<<28)
			for sc.Scan() {
				var r core.Result
				if err := json.Unmarshal(sc.Bytes(), &r); err != nil {
					mu.Lock()
					workerFail = true
					mu.Unlock()
					continue
				}
				mu.Lock()
				a.add(&r)
				mu.Unlock()
			}
			err = cmd.Wait()
			killer.Stop()
			if err != nil {
				fmt.Fprintf(os.Stderr, "worker %d failed: %v\n", i, err)
				mu.Lock()
				workerFail = true
				mu.Unlock()
			}
		}(i)
	}
	wg.Wait()

	// 3. violations: group by signature, minimise, write replay files
	bySig := map[string]*core.Result{}
	var sigs []string
	for _, r := range a.violations {
		if _, ok := bySig[r.Viol.Signature]; !ok {
			bySig[r.Viol.Signature] = r
			sigs = append(sigs, r.Viol.Signature)
		}
	}
	sort.Strings(sigs)
	os.MkdirAll(filepath.Join(verifDir, "replays"), 0o755)
	minBudget := time.Duration(envInt("VERIF_MINIMISE_S", 60)) * time.Second
	for i, sig := range sigs {
		if i >= envInt("VERIF_MAX_REPORT", 5) {
			fmt.Printf("  (%d more distinct signatures not minimised)\n", len(sigs)-i)
			break
		}
		r := bySig[sig]
		p := props.Find(r.Profile)
		tape, replays := core.Minimise(p, r.Tape, sig, known, 400, time.Now().Add(minBudget))
		// final confirmation in-process
		final := core.Execute(p, chooser.NewReplayer(tape), known, "replay", true)
		rf := &core.ReplayFile{Version: 1, Property: prop, Profile: r.Profile, Seed: r.Seed, Tape: tape}
		if final.Viol != nil && final.Viol.Signature == sig {
			rf.Expect.Signature, rf.Expect.Step, rf.Expect.LogHash, rf.Expect.Detail = sig, final.Viol.Step, final.LogHash, final.Viol.Detail
			rf.Trace = final.Trace
		} else {
			rf.Tape = r.Tape
			rf.Expect.Signature, rf.Expect.Step, rf.Expect.LogHash, rf.Expect.Detail = sig, r.Viol.Step, r.LogHash, r.Viol.Detail
			rf.Trace = r.Trace
		}
		rf.Minimised.FromDraws, rf.Minimised.ToDraws, rf.Minimised.Replays = r.Tape.NumDraws(), rf.Tape.NumDraws(), replays
		rf.Repo.Head, rf.Repo.Dirty = repoHead()
		path := filepath.Join(verifDir, "replays", fmt.Sprintf("%s-%s-%d.json", prop, core.SigFile(sig), r.Seed))
		if err := core.WriteReplay(path, rf); err != nil {
			fmt.Fprintln(os.Stderr, "cannot write replay:", err)
			return 2
		}
		fmt.Printf("VIOLATION property=%s replay=%s\n", prop, path)
		fmt.Printf("  signature=%s seed=%d profile=%s step=%d draws %d->%d\n  %s\n", sig, r.Seed, r.Profile, rf.Expect.Step, rf.Minimised.FromDraws, rf.Minimised.ToDraws, rf.Expect.Detail)
		exit = 1
	}

	wall := time.Since(start).Seconds()
	a.stats["fixed-finding-replays-rerun"] = a0fixed
	if err := writeEvidence(prop, tier, seed, a, reproduced, len(sigs), wall, workers, ps); err != nil {
		fmt.Fprintln(os.Stderr, "cannot write evidence:", err)
		return 2
	}
	fmt.Printf("runs=%d nontrivial=%d distinct_nontrivial=%d shapes=%d grams=%d sim_time=%.0fs blocks=%d txs=%d wall=%.1fs known_hits=%v\n",
		a.runs, a.nontrivial, len(a.distinct), len(a.shapes), len(a.grams), a.simSeconds, a.blocks, a.txs, wall, a.knownHits)
	if len(a.errors) > 0 {
		for i, r := range a.errors {
			if i < 3 {
				fmt.Fprintf(os.Stderr, "MACHINERY-ERROR profile=%s seed=%d: %s\n", r.Profile, r.Seed, firstLines(r.Err, 12))
			}
		}
		fmt.Fprintf(os.Stderr, "%d runs ended in machinery errors\n", len(a.errors))
		if exit == 0 {
			return 2
		}
	}
	if workerFail && exit == 0 {
		return 2
	}
	if a.runs == 0 && exit == 0 {
		fmt.Fprintln(os.Stderr, "no runs executed")
		return 2
	}
	return exit
}

func firstLines(s string, n int) string {
	ls := strings.Split(s, "\n")
	if len(ls) > n {
		ls = ls[:n]
	}
	return strings.Join(ls, "\n")
}

func (a *agg) add(r *core.Result) {
	a.runs++
	a.perProfile[r.Profile]++
	a.simSeconds += r.SimSeconds
	a.steps += r.Steps
	a.blocks += r.Blocks
	a.txs += r.Txs
	a.wallMsInRuns += r.WallMs
	for k, v := range r.Stats {
		a.stats[k] += v
	}
	for k, v := range r.KnownHits {
		a.knownHits[k] += v
	}
	a.shapes[r.Shape] = true
	for _, g := range r.Grams {
		a.grams[g] = true
	}
	if r.Nontrivial {
		a.nontrivial++
		a.distinct[r.LogHash] = true
	}
	if len(a.samples) < 3 && len(r.Trace) > 0 && r.Viol == nil && r.Err == "" {
		tr := r.Trace
		if len(tr) > 25 {
			tr = tr[len(tr)-25:]
		}
		a.samples = append(a.samples, map[string]interface{}{"profile": r.Profile, "seed": r.Seed, "steps": r.Steps, "trace_tail": tr})
	}
	if r.Err != "" {
		a.errors = append(a.errors, r)
	} else if r.Viol != nil {
		a.violations = append(a.violations, r)
	}
}

func repoHead() (string, bool) {
	out, err := exec.Command("git", "-C", "/repo", "rev-parse", "HEAD").Output()
	head := strings.TrimSpace(string(out))
	if err != nil {
		head = "unknown"
	}
	st, _ := exec.Command("git", "-C", "/repo", "status", "--porcelain").Output()
	return head, len(strings.TrimSpace(string(st))) > 0
}

func writeEvidence(prop, tier string, seed uint64, a *agg, reproduced []string, nviol int, wall float64, workers int, ps []*core.Profile) error {
	var docs []string
	for _, p := range ps {
		docs = append(docs, p.Name+": "+p.Doc)
	}
	samples := a.samples
	if len(samples) == 0 {
		samples = []interface{}{"no trace sample kept"}
	}
	faults := map[string]int{}
	probes := map[string]int{}
	for k, v := range a.stats {
		if strings.HasPrefix(k, "probe-") {
			probes[k] = v
		} else {
			faults[k] = v
		}
	}
	perHour := 0.0
	if wall > 0 {
		perHour = float64(a.runs) / wall * 3600
	}
	ev := map[string]interface{}{
		"property_id": prop, "tier": tier, "seed": seed, "level": "exploration",
		"wall_s": wall, "violations": nviol,
		"coverage": map[string]interface{}{
			"evaluations":         a.runs,
			"distinct_nontrivial": len(a.distinct),
			"rule": "one evaluation = one seeded simulated run (world config, workload, schedule and faults all drawn from the run seed = mix(VERIF_SEED, profile, index)); " +
				"a run is non-trivial when it exercised the property's mechanism as defined per profile (see nontrivial_rule); distinct = distinct SHA-256 of the run's canonical event log (every block, tx result code and app hash)",
			"nontrivial_rule":               evidenceRules[prop],
			"samples":                       samples,
			"profiles":                      docs,
			"runs_per_profile":              a.perProfile,
			"runs_per_hour":                 perHour,
			"seeds_per_hour":                perHour,
			"simulated_time_s":              a.simSeconds,
			"steps":                         a.steps,
			"blocks":                        a.blocks,
			"txs":                           a.txs,
			"faults_and_ops_fired":          faults,
			"probes_hit":                    probes,
			"distinct_op_outcome_sequences": len(a.shapes),
			"distinct_op_outcome_3grams":    len(a.grams),
			"nontrivial_runs":               a.nontrivial,
			"known_findings_reproduced":     reproduced,
			"known_finding_hits_in_runs":    a.knownHits,
			"workers":                       workers,
			"real_vs_stub":                  realVsStub[prop],
		},
		"assumptions": assumptions[prop],
	}
	bz, err := json.MarshalIndent(ev, "", " ")
	if err != nil {
		return err
	}
	os.MkdirAll(filepath.Join(verifDir, "evidence"), 0o755)
	return os.WriteFile(filepath.Join(verifDir, "evidence", prop+".json"), bz, 0o644)
}

// ---------------------------------------------------------------- replay / run

func cmdReplay(path string) int {
	rf, err := core.ReadReplay(path)
	if err != nil {
		fmt.Fprintln(os.Stderr, err)
		return 2
	}
	p := props.Find(rf.Profile)
	if p == nil {
		fmt.Fprintln(os.Stderr, "unknown profile", rf.Profile)
		return 2
	}
	ffile, known := loadKnown(rf.Property)
	for _, o := range ffile.Findings { // pass through every other listed signature of the property
		if o.Property == rf.Property {
			known[o.Signature] = true
		}
	}
	delete(known, rf.Expect.Signature)
	res := core.Execute(p, chooser.NewReplayer(rf.Tape), known, "replay", true)
	for _, l := range res.Trace {
		fmt.Println(l)
	}
	if res.Err != "" {
		fmt.Fprintln(os.Stderr, "machinery error:", res.Err)
		return 2
	}
	if res.Viol != nil && res.Viol.Signature == rf.Expect.Signature {
		same := res.LogHash == rf.Expect.LogHash && res.Viol.Step == rf.Expect.Step
		fmt.Printf("VIOLATION property=%s replay=%s\n  signature=%s step=%d identical_execution=%v\n  %s\n", rf.Property, path, res.Viol.Signature, res.Viol.Step, same, res.Viol.Detail)
		return 1
	}
	if res.Viol != nil {
		fmt.Printf("DIFFERENT-VIOLATION %s (expected %s): %s\n", res.Viol.Signature, rf.Expect.Signature, res.Viol.Detail)
		return 1
	}
	fmt.Printf("NOT-REPRODUCED %s (expected %s)\n", path, rf.Expect.Signature)
	return 0
}

func cmdRun(profile, seedStr string) int {
	p := props.Find(profile)
	if p == nil {
		fmt.Fprintln(os.Stderr, "unknown profile", profile)
		return 2
	}
	seed, _ := strconv.ParseUint(seedStr, 10, 64)
	_, known := loadKnown(p.Property)
	if os.Getenv("VERIF_NO_KNOWN") != "" {
		known = map[string]bool{}
	}
	res := core.Execute(p, chooser.NewGenerator(seed), known, "run", true)
	res.Seed = seed
	for _, l := range res.Trace {
		fmt.Println(l)
	}
	fmt.Printf("steps=%d blocks=%d txs=%d nontrivial=%v loghash=%s wall=%dms known=%v\nstats=%v\n", res.Steps, res.Blocks, res.Txs, res.Nontrivial, res.LogHash[:16], res.WallMs, res.KnownHits, res.Stats)
	if res.Err != "" {
		fmt.Println("ERR", res.Err)
		return 2
	}
	if res.Viol != nil {
		fmt.Printf("VIOLATION %s step=%d: %s\n", res.Viol.Signature, res.Viol.Step, res.Viol.Detail)
		if out := os.Getenv("VERIF_SAVE"); out != "" {
			tape, n := core.Minimise(p, res.Tape, res.Viol.Signature, known, 400, time.Now().Add(90*time.Second))
			final := core.Execute(p, chooser.NewReplayer(tape), known, "replay", true)
			rf := &core.ReplayFile{Version: 1, Property: p.Property, Profile: p.Name, Seed: seed, Tape: tape, Trace: final.Trace}
			if final.Viol == nil {
				fmt.Println("minimised tape does not reproduce")
				return 2
			}
			rf.Expect.Signature, rf.Expect.Step, rf.Expect.LogHash, rf.Expect.Detail = final.Viol.Signature, final.Viol.Step, final.LogHash, final.Viol.Detail
			rf.Minimised.FromDraws, rf.Minimised.ToDraws, rf.Minimised.Replays = res.Tape.NumDraws(), tape.NumDraws(), n
			rf.Repo.Head, rf.Repo.Dirty = repoHead()
			if err := core.WriteReplay(out, rf); err != nil {
				fmt.Println(err)
				return 2
			}
			fmt.Printf("saved %s (draws %d->%d)\n", out, rf.Minimised.FromDraws, rf.Minimised.ToDraws)
		}
		return 1
	}
	return 0
}

// ---------------------------------------------------------------- determinism self-test

func cmdSelftestDeterminism(args []string) int {
	plist := args
	if len(plist) == 0 {
		plist = props.Properties()
	}
	self, _ := os.Executable()
	nSeeds := envInt("VERIF_DET_SEEDS", 6)
	bad := 0
	total := 0
	for _, prop := range plist {
		for _, p := range props.Profiles(prop) {
			n := nSeeds
			if p.ThoroughOnly { // long runs of code that the base profile already covers
				n = 1
			}
			for s := 0; s < n; s++ {
				seed := chooser.Mix(uint64(envInt("VERIF_SEED", 1)), "det/"+p.Name, uint64(s))
				var hashes []string
				for _, gmp := range []string{"1", "4", "16"} {
					cmd := exec.Command(self, "run", p.Name, fmt.Sprint(seed))
					cmd.Env = append(os.Environ(), "GOMAXPROCS="+gmp, "TZ=Asia/Tokyo")
					out, _ := cmd.CombinedOutput()
					h := ""
					for _, l := range strings.Split(string(out), "\n") {
						if i := strings.Index(l, "loghash="); i >= 0 {
							h = strings.Fields(l[i:])[0]
						}
					}
					hashes = append(hashes, h)
				}
				total++
				if hashes[0] == "" || hashes[0] != hashes[1] || hashes[1] != hashes[2] {
					bad++
					fmt.Printf("NONDETERMINISTIC profile=%s seed=%d: %v\n", p.Name, seed, hashes)
				}
			}
		}
	}
	fmt.Printf("determinism self-test: %d (profile,seed) pairs x 3 processes (GOMAXPROCS 1/4/16), %d mismatches\n", total, bad)
	if bad > 0 {
		return 2
	}
	return 0
}
