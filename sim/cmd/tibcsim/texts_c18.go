package main

// Evidence texts of property C18 (ETH proof-of-work light client).

func init() {
	evidenceRules["C18"] = "c18-eth-tree / c18-eth-tree-crash: the client accepted >= 8 headers of the seeded header tree and >= 1 fork was created (two stored children of one stored header); " +
		"c18-eth-mainnet-seal: >= 2 recorded mainnet headers passed the real (unhooked) ethash seal verification and >= 1 header with a single-bit corrupted nonce / mix digest went through it"
	realVsStub["C18"] = commonReal + " C18: REAL 09-eth light client (header checks, store, RestrictChain), 02-client keeper and msg server; every header arrives in a signed MsgUpdateClient executed by BaseApp. " +
		"STUB: the Ethereum chain is a seeded header tree grown from recorded mainnet header 13286181 (hashes by go-ethereum core/types, base fee by consensus/misc.CalcBaseFee, difficulty by consensus/ethash.CalcDifficulty, mainnet London config); " +
		"synthetic headers are not mined, so profiles c18-eth-tree* run with the build-tag-guarded hook VerifSkipSeal=true (only the ethash seal computation is skipped); " +
		"profile c18-eth-mainnet-seal runs with the hook off on the ten recorded mainnet headers. The client is created by keeper call (world set-up)."
	assumptions["C18"] = append(append([]string{}, assumptions["C18"]...),
		"the recorded mainnet headers carry valid seals (taken as ground truth for the unhooked seal check); a genuine header with one flipped nonce / mix-digest bit carries an invalid seal",
		"'not more than 15 seconds ahead of chain time' is asserted strictly inside (<= 14 s: the future rule must not refuse) and strictly outside (>= 16 s: must refuse); the second around the bound is unconstrained because header times are whole seconds and host block times carry nanoseconds",
		"London rule set (EIP-1559 gas limit / base fee, EIP-100 difficulty adjustment with EIP-3554 bomb delay) is the prescribed one for the simulated heights 13286181..+~100 (< Arrow Glacier 13773000)",
		"trusting period is chosen so that nothing expires or is pruned inside a run (pruning is not part of C18)",
		"the statement does not prescribe a fork-choice rule: which stored header becomes the latest header is not asserted (moves to a lower or lighter header are counted as probes), only that the exposed consensus states up to it form its parent-linked chain",
	)
}
