// Package core is the property-independent part of the checker: run context,
// violations and signatures, replay files, minimisation, known findings.
package core

import (
	"encoding/json"
	"fmt"
	"os"
	"runtime/debug"
	"sort"
	"strings"
	"time"

	"tibcsim/chooser"
	"tibcsim/world"
)

// Violation is one observed breach of a property.
type Violation struct {
	Property  string `json:"property"`
	Signature string `json:"signature"` // <property>/<oracle>/<discriminator>
	Detail    string `json:"detail"`
	Step      int    `json:"step"`
}

type stopRun struct{}
type machineryErr struct{ err error }

// Ctx is handed to a profile for one run.
type Ctx struct {
	Ch        *chooser.Chooser
	Property  string
	Profile   string
	Tier      string
	Scale     int // step-count multiplier of the profile (1 unless a "-deep" profile)
	Known     map[string]bool // signatures of open known findings: counted, run continues
	KnownHits map[string]int
	Viol      *Violation // first unknown violation (ends the run)
	Stats     world.Stats
	W         *world.World
	StepNo    int
	MaxSteps  int
	Notes     []string
	// Nontrivial is set by the profile when the run exercised the property's mechanism.
	Nontrivial bool
	// Shape is an abstract fingerprint of what the run did (op/outcome n-grams).
	shape []string
}

// Step starts a new scheduler step (a tape segment).
func (c *Ctx) Step(kind string) {
	c.StepNo++
	c.Ch.BeginStep(kind)
}

// Op records an (operation,outcome) pair for the interleaving measure.
func (c *Ctx) Op(s string) { c.shape = append(c.shape, s) }

// Violate reports a violation.  Known open findings are counted and the run
// continues; anything else ends the run.
func (c *Ctx) Violate(sig string, format string, args ...interface{}) {
	if c.Known[sig] {
		c.KnownHits[sig]++
		return
	}
	c.Viol = &Violation{Property: c.Property, Signature: sig, Detail: fmt.Sprintf(format, args...), Step: c.StepNo}
	panic(stopRun{})
}

// Check is shorthand: machinery errors abort the run with exit code 2 semantics.
func (c *Ctx) Check(err error) {
	if err != nil {
		panic(machineryErr{err})
	}
}

func (c *Ctx) Failf(format string, args ...interface{}) {
	panic(machineryErr{fmt.Errorf(format, args...)})
}

// Result of one run.
type Result struct {
	Seed       uint64         `json:"seed"`
	Profile    string         `json:"profile"`
	Viol       *Violation     `json:"violation,omitempty"`
	KnownHits  map[string]int `json:"known_hits,omitempty"`
	Stats      world.Stats    `json:"stats,omitempty"`
	LogHash    string         `json:"log_hash"`
	Steps      int            `json:"steps"`
	Blocks     int            `json:"blocks"`
	Txs        int            `json:"txs"`
	SimSeconds float64        `json:"sim_s"`
	Nontrivial bool           `json:"nontrivial"`
	Shape      string         `json:"shape"` // hash of the op/outcome sequence
	Grams      []string       `json:"grams,omitempty"`
	Err        string         `json:"err,omitempty"`
	Trace      []string       `json:"trace,omitempty"`
	Tape       *chooser.Tape  `json:"tape,omitempty"`
	WallMs     int64          `json:"wall_ms"`
}

// Profile is one simulated scenario family of a property.
type Profile struct {
	Name     string
	Property string
	Weight   int // share of the budget
	Fault    bool
	Run      func(c *Ctx)
	Doc      string
	// ThoroughOnly profiles are left out of the quick tier; Scale multiplies the
	// number of scheduler steps of a run (0 = 1).
	ThoroughOnly bool
	Scale        int
}

// Execute runs a profile with the given chooser.
func Execute(p *Profile, ch *chooser.Chooser, known map[string]bool, tier string, keepTrace bool) (res *Result) {
	c := &Ctx{Ch: ch, Property: p.Property, Profile: p.Name, Tier: tier, Known: known, KnownHits: map[string]int{}, Stats: world.Stats{}, Scale: p.Scale}
	if c.Scale < 1 {
		c.Scale = 1
	}
	if c.Known == nil {
		c.Known = map[string]bool{}
	}
	start := time.Now()
	res = &Result{Profile: p.Name}
	world.DisarmKeeperFaults() // process-global cooperative fault points never leak from one run into the next
	defer func() {
		if r := recover(); r != nil {
			switch v := r.(type) {
			case stopRun:
			case machineryErr:
				res.Err = v.err.Error()
			default:
				res.Err = fmt.Sprintf("panic: %v\n%s", r, debug.Stack())
			}
		}
		res.Viol = c.Viol
		res.KnownHits = c.KnownHits
		res.Stats = c.Stats
		res.Steps = c.StepNo
		res.Nontrivial = c.Nontrivial
		if c.W != nil {
			res.LogHash = c.W.Log.Hash()
			res.Blocks = c.W.Blocks
			res.Txs = c.W.Txs
			res.SimSeconds = c.W.Now.Seconds()
			for k, v := range c.W.Stats {
				res.Stats[k] += v
			}
			if keepTrace || c.Viol != nil || res.Err != "" {
				res.Trace = append([]string(nil), c.W.Log.Tail(60)...)
			}
		}
		res.Shape, res.Grams = shapeOf(c.shape)
		res.Tape = ch.Tape()
		res.WallMs = time.Since(start).Milliseconds()
	}()
	p.Run(c)
	return res
}

func shapeOf(ops []string) (string, []string) {
	set := map[string]bool{}
	for i := 0; i+2 < len(ops); i++ {
		set[ops[i]+">"+ops[i+1]+">"+ops[i+2]] = true
	}
	grams := make([]string, 0, len(set))
	for g := range set {
		grams = append(grams, g)
	}
	sort.Strings(grams)
	h := uint64(1469598103934665603)
	for _, o := range ops {
		for _, b := range []byte(o) {
			h = (h ^ uint64(b)) * 1099511628211
		}
		h = (h ^ 0xff) * 1099511628211
	}
	return fmt.Sprintf("%016x", h), grams
}

// ---- replay files ----

type ReplayFile struct {
	Version  int           `json:"version"`
	Property string        `json:"property"`
	Profile  string        `json:"profile"`
	Seed     uint64        `json:"seed"`
	Tape     *chooser.Tape `json:"tape"`
	Expect   struct {
		Signature string `json:"signature"`
		Step      int    `json:"at_step"`
		LogHash   string `json:"eventlog_sha256"`
		Detail    string `json:"detail"`
	} `json:"expect"`
	Repo struct {
		Head  string `json:"head"`
		Dirty bool   `json:"dirty"`
	} `json:"repo"`
	Minimised struct {
		FromDraws int `json:"from_draws"`
		ToDraws   int `json:"to_draws"`
		Replays   int `json:"replays"`
	} `json:"minimised"`
	Trace []string `json:"trace"`
}

func WriteReplay(path string, rf *ReplayFile) error {
	bz, err := json.MarshalIndent(rf, "", " ")
	if err != nil {
		return err
	}
	return os.WriteFile(path, bz, 0o644)
}

func ReadReplay(path string) (*ReplayFile, error) {
	bz, err := os.ReadFile(path)
	if err != nil {
		return nil, err
	}
	rf := &ReplayFile{}
	if err := json.Unmarshal(bz, rf); err != nil {
		return nil, err
	}
	if rf.Tape == nil {
		return nil, fmt.Errorf("replay file %s has no tape", path)
	}
	return rf, nil
}

// Minimise shrinks a failing tape while the same signature persists.
func Minimise(p *Profile, tape *chooser.Tape, sig string, known map[string]bool, maxReplays int, deadline time.Time) (*chooser.Tape, int) {
	replays := 0
	try := func(t *chooser.Tape) (*chooser.Tape, bool) {
		if replays >= maxReplays || time.Now().After(deadline) {
			return nil, false
		}
		replays++
		r := Execute(p, chooser.NewReplayer(t), known, "replay", false)
		if r.Viol != nil && r.Viol.Signature == sig && r.Err == "" {
			return r.Tape, true // effective tape (truncated at the violation)
		}
		return nil, false
	}
	best := tape
	if t, ok := try(best); ok {
		best = t
	} else {
		return tape, replays
	}
	// 1. delete ranges of steps (delta debugging; never the init step)
	for chunk := len(best.Steps) / 2; chunk >= 1; chunk /= 2 {
		for i := 1; i+chunk <= len(best.Steps); {
			cand := &chooser.Tape{}
			cand.Steps = append(cand.Steps, best.Clone().Steps[:i]...)
			cand.Steps = append(cand.Steps, best.Clone().Steps[i+chunk:]...)
			if t, ok := try(cand); ok && len(t.Steps) <= len(cand.Steps)+1 {
				best = t
			} else {
				i += chunk
			}
			if replays >= maxReplays || time.Now().After(deadline) {
				return best, replays
			}
		}
	}
	// 2. reduce values toward 0
	for si := 0; si < len(best.Steps); si++ {
		for di := 0; di < len(best.Steps[si].Draws); di++ {
			if best.Steps[si].Draws[di] == 0 {
				continue
			}
			cand := best.Clone()
			cand.Steps[si].Draws[di] = 0
			if t, ok := try(cand); ok && t.NumDraws() <= best.NumDraws() {
				best = t
				if si >= len(best.Steps) {
					break
				}
			}
			if replays >= maxReplays || time.Now().After(deadline) {
				return best, replays
			}
		}
	}
	return best, replays
}

// ---- known findings ----

type Finding struct {
	Property  string `json:"property"`
	Signature string `json:"signature"`
	Status    string `json:"status"` // open | fixed
	Commit    string `json:"commit,omitempty"`
	WhatFails string `json:"what_fails"`
	Replay    string `json:"replay"`
	FirstSeed uint64 `json:"first_seen_seed,omitempty"`
}

type FindingsFile struct {
	Findings []Finding `json:"findings"`
}

func LoadFindings(path string) (*FindingsFile, error) {
	bz, err := os.ReadFile(path)
	if err != nil {
		if os.IsNotExist(err) {
			return &FindingsFile{}, nil
		}
		return nil, err
	}
	ff := &FindingsFile{}
	if err := json.Unmarshal(bz, ff); err != nil {
		return nil, err
	}
	return ff, nil
}

func (ff *FindingsFile) OpenFor(prop string) map[string]bool {
	m := map[string]bool{}
	for _, f := range ff.Findings {
		if f.Property == prop && f.Status == "open" {
			m[f.Signature] = true
		}
	}
	return m
}

// SigFile turns a signature into a file-name fragment.
func SigFile(sig string) string {
	r := strings.NewReplacer("/", "-", " ", "_", ":", "_")
	return r.Replace(sig)
}
