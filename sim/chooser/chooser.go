// Package chooser is the single source of nondeterminism of the simulator.
//
// Every decision of a run (configuration, workload, schedule, faults) is drawn
// through a Chooser.  In generate mode the values come from a PRNG seeded with
// one integer and are appended to a tape; in replay mode they are read back
// from a tape (value mod n, 0 when the tape is exhausted), so every tape is a
// valid execution and tapes can be shrunk freely.
package chooser

import (
	"fmt"
)

// splitmix64 / xoshiro256** — fixed implementation, independent of math/rand.
type rng struct{ s [4]uint64 }

func splitmix(x *uint64) uint64 {
	*x += 0x9e3779b97f4a7c15
	z := *x
	z = (z ^ (z >> 30)) * 0xbf58476d1ce4e5b9
	z = (z ^ (z >> 27)) * 0x94d049bb133111eb
	return z ^ (z >> 31)
}

func newRng(seed uint64) *rng {
	r := &rng{}
	x := seed
	for i := range r.s {
		r.s[i] = splitmix(&x)
	}
	return r
}

func rotl(x uint64, k uint) uint64 { return (x << k) | (x >> (64 - k)) }

func (r *rng) next() uint64 {
	s := &r.s
	result := rotl(s[1]*5, 7) * 9
	t := s[1] << 17
	s[2] ^= s[0]
	s[3] ^= s[1]
	s[1] ^= s[2]
	s[0] ^= s[3]
	s[2] ^= t
	s[3] = rotl(s[3], 45)
	return result
}

// Mix derives a run seed from a batch seed, a label and an index.
func Mix(seed uint64, label string, i uint64) uint64 {
	x := seed ^ 0x5851f42d4c957f2d
	for _, c := range []byte(label) {
		x = (x ^ uint64(c)) * 0x100000001b3
	}
	x ^= i * 0x9e3779b97f4a7c15
	return splitmix(&x)
}

// Step is one segment of the tape: the draws of one scheduler step.
type Step struct {
	Kind  string   `json:"kind,omitempty"`
	Draws []uint64 `json:"draws"`
}

// Tape is the recorded sequence of decisions of one run.
type Tape struct {
	Steps []Step `json:"steps"`
}

func (t *Tape) Clone() *Tape {
	c := &Tape{Steps: make([]Step, len(t.Steps))}
	for i, s := range t.Steps {
		c.Steps[i] = Step{Kind: s.Kind, Draws: append([]uint64(nil), s.Draws...)}
	}
	return c
}

func (t *Tape) NumDraws() int {
	n := 0
	for _, s := range t.Steps {
		n += len(s.Draws)
	}
	return n
}

// Chooser draws decisions.  Not safe for concurrent use (the simulator is
// single threaded by construction).
type Chooser struct {
	gen    *rng  // nil in replay mode
	in     *Tape // replay source
	inStep int   // index of the current input step
	inPos  int   // position inside the current input step
	out    *Tape // recorded tape (both modes: replay re-records the effective tape)
	draws  int
}

func NewGenerator(seed uint64) *Chooser {
	return &Chooser{gen: newRng(seed), out: &Tape{Steps: []Step{{Kind: "init"}}}}
}

func NewReplayer(t *Tape) *Chooser {
	return &Chooser{in: t, inStep: 0, out: &Tape{Steps: []Step{{Kind: "init"}}}}
}

// BeginStep marks a segment boundary.  In replay mode the reader moves to the
// next recorded segment, discarding unread draws of the current one, so
// deleting or shrinking a segment leaves the following ones aligned.
func (c *Chooser) BeginStep(kind string) {
	c.out.Steps = append(c.out.Steps, Step{Kind: kind})
	if c.in != nil {
		c.inStep++
		c.inPos = 0
	}
}

// SetKind relabels the current output step (for readable traces).
func (c *Chooser) SetKind(kind string) { c.out.Steps[len(c.out.Steps)-1].Kind = kind }

func (c *Chooser) raw() uint64 {
	if c.gen != nil {
		return c.gen.next()
	}
	if c.inStep < len(c.in.Steps) {
		s := c.in.Steps[c.inStep]
		if c.inPos < len(s.Draws) {
			v := s.Draws[c.inPos]
			c.inPos++
			return v
		}
	}
	return 0
}

// Int returns a value in [0,n).  n<=1 returns 0 but still consumes a draw so
// that the tape layout does not depend on world state more than necessary.
func (c *Chooser) Int(n int) int {
	if n <= 0 {
		n = 1
	}
	v := c.raw()
	r := v % uint64(n)
	cur := &c.out.Steps[len(c.out.Steps)-1]
	cur.Draws = append(cur.Draws, r)
	c.draws++
	return int(r)
}

// Uint64 returns a full 64-bit draw.
func (c *Chooser) Uint64() uint64 {
	v := c.raw()
	cur := &c.out.Steps[len(c.out.Steps)-1]
	cur.Draws = append(cur.Draws, v)
	c.draws++
	return v
}

// Bool returns true with probability num/den.
func (c *Chooser) Bool(num, den int) bool { return c.Int(den) < num }

// Pick chooses an index by integer weights.
func (c *Chooser) Pick(weights []int) int {
	total := 0
	for _, w := range weights {
		total += w
	}
	if total <= 0 {
		c.Int(1)
		return 0
	}
	v := c.Int(total)
	for i, w := range weights {
		if v < w {
			return i
		}
		v -= w
	}
	return len(weights) - 1
}

// Range returns a value in [lo,hi].
func (c *Chooser) Range(lo, hi int) int {
	if hi < lo {
		hi = lo
	}
	return lo + c.Int(hi-lo+1)
}

func (c *Chooser) Tape() *Tape    { return c.out }
func (c *Chooser) NumDraws() int  { return c.draws }
func (c *Chooser) Replaying() bool { return c.in != nil }

func (s Step) String() string { return fmt.Sprintf("%s%v", s.Kind, s.Draws) }
