package world

import (
	"fmt"

	sdk "github.com/cosmos/cosmos-sdk/types"
	mtexported "mods.irisnet.org/modules/mt/exported"
	mttypes "mods.irisnet.org/modules/mt/types"
	nftexported "mods.irisnet.org/modules/nft/exported"
	nfttypes "mods.irisnet.org/modules/nft/types"

	mttransfer "github.com/bianjieai/tibc-go/modules/tibc/apps/mt_transfer/types"
	nfttransfer "github.com/bianjieai/tibc-go/modules/tibc/apps/nft_transfer/types"
	"github.com/bianjieai/tibc-go/simapp"
)

// Cooperative fault points ("buggify") for the token keepers the transfer
// applications depend on (hook H2, build tag verif): a usually-successful
// keeper call returns an error.  Armed per chain and method by the profile;
// fires once.

// KeeperFault describes one armed fault.
type KeeperFault struct {
	Chain  string // chain id the fault applies to
	Method string // e.g. "TransferOwner", "MintNFT", "IssueDenom", "MintMT", "IssueMT", "BurnMT", "BurnNFT"
	Skip   int    // let this many matching calls pass first
	Fired  int
}

var armed []*KeeperFault

// ArmKeeperFault arms a fault; returns it so that the caller can see whether it fired.
func ArmKeeperFault(f *KeeperFault) *KeeperFault { armed = append(armed, f); return f }

// DisarmKeeperFaults removes every armed fault (call at the start of every run).
func DisarmKeeperFaults() { armed = nil }

func keeperFault(ctx sdk.Context, method string) error {
	for _, f := range armed {
		if f.Fired == 0 && f.Method == method && f.Chain == ctx.ChainID() {
			if f.Skip > 0 {
				f.Skip--
				continue
			}
			f.Fired++
			return fmt.Errorf("injected keeper fault in %s", method)
		}
	}
	return nil
}

type faultyNft struct{ nfttransfer.NftKeeper }

func (k faultyNft) MintNFT(ctx sdk.Context, denomID, tokenID, tokenNm, tokenURI, tokenData string, owner sdk.AccAddress) error {
	if err := keeperFault(ctx, "MintNFT"); err != nil {
		return err
	}
	return k.NftKeeper.MintNFT(ctx, denomID, tokenID, tokenNm, tokenURI, tokenData, owner)
}
func (k faultyNft) BurnNFT(ctx sdk.Context, denomID, tokenID string, owner sdk.AccAddress) error {
	if err := keeperFault(ctx, "BurnNFT"); err != nil {
		return err
	}
	return k.NftKeeper.BurnNFT(ctx, denomID, tokenID, owner)
}
func (k faultyNft) TransferOwner(ctx sdk.Context, denomID, tokenID, tokenNm, tokenURI, tokenData string, srcOwner, dstOwner sdk.AccAddress) error {
	if err := keeperFault(ctx, "TransferOwner"); err != nil {
		return err
	}
	return k.NftKeeper.TransferOwner(ctx, denomID, tokenID, tokenNm, tokenURI, tokenData, srcOwner, dstOwner)
}
func (k faultyNft) IssueDenom(ctx sdk.Context, id, name, schema, symbol string, creator sdk.AccAddress, mintRestricted, updateRestricted bool) error {
	if err := keeperFault(ctx, "IssueDenom"); err != nil {
		return err
	}
	return k.NftKeeper.IssueDenom(ctx, id, name, schema, symbol, creator, mintRestricted, updateRestricted)
}

type faultyMt struct{ mttransfer.MtKeeper }

func (k faultyMt) IssueMT(ctx sdk.Context, denomID, mtID string, amount uint64, data []byte, recipient sdk.AccAddress) (mttypes.MT, error) {
	if err := keeperFault(ctx, "IssueMT"); err != nil {
		return mttypes.MT{}, err
	}
	return k.MtKeeper.IssueMT(ctx, denomID, mtID, amount, data, recipient)
}
func (k faultyMt) MintMT(ctx sdk.Context, denomID, mtID string, amount uint64, recipient sdk.AccAddress) error {
	if err := keeperFault(ctx, "MintMT"); err != nil {
		return err
	}
	return k.MtKeeper.MintMT(ctx, denomID, mtID, amount, recipient)
}
func (k faultyMt) BurnMT(ctx sdk.Context, denomID, mtID string, amount uint64, owner sdk.AccAddress) error {
	if err := keeperFault(ctx, "BurnMT"); err != nil {
		return err
	}
	return k.MtKeeper.BurnMT(ctx, denomID, mtID, amount, owner)
}
func (k faultyMt) TransferOwner(ctx sdk.Context, denomID, mtID string, amount uint64, srcOwner, dstOwner sdk.AccAddress) error {
	if err := keeperFault(ctx, "MtTransferOwner"); err != nil {
		return err
	}
	return k.MtKeeper.TransferOwner(ctx, denomID, mtID, amount, srcOwner, dstOwner)
}

func init() {
	simapp.VerifNftKeeperWrap = func(k nfttransfer.NftKeeper) nfttransfer.NftKeeper { return faultyNft{k} }
	simapp.VerifMtKeeperWrap = func(k mttransfer.MtKeeper) mttransfer.MtKeeper { return faultyMt{k} }
}

var _ = nftexported.NFT(nil)
var _ = mtexported.MT(nil)
var _ = nfttypes.ModuleName
