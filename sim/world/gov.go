package world

import (
	"fmt"
	"strconv"
	"time"

	sdkmath "cosmossdk.io/math"
	sdk "github.com/cosmos/cosmos-sdk/types"
	authtypes "github.com/cosmos/cosmos-sdk/x/auth/types"
	govtypes "github.com/cosmos/cosmos-sdk/x/gov/types"
	govv1 "github.com/cosmos/cosmos-sdk/x/gov/types/v1"
)

// GovAuthority is the address TIBC accepts as authority (the gov module account).
func GovAuthority() string { return authtypes.NewModuleAddress(govtypes.ModuleName).String() }

// GovResult describes what became of a proposal.
type GovResult struct {
	SubmitCode uint32
	SubmitLog  string
	ProposalID uint64
	Status     govv1.ProposalStatus
	FailReason string
}

// Executed reports whether the proposal passed and its messages ran.
func (g GovResult) Executed() bool { return g.Status == govv1.StatusPassed }

// GovExec runs a real governance round on n for msgs (whose authority must be
// the gov module account): submit with deposit, vote yes with the staked
// account, let the voting period elapse on the simulated clock, and let
// EndBlock execute the messages.  votingPeriod must match the genesis value.
func (w *World) GovExec(n *Node, msgs []sdk.Msg, title string) (GovResult, error) {
	var res GovResult
	proposer := w.Users[0] // holds all the stake (genesis delegator)
	deposit := sdk.NewCoins(sdk.NewCoin(sdk.DefaultBondDenom, sdkmath.NewInt(10_000_000)))
	sub, err := govv1.NewMsgSubmitProposal(msgs, deposit, proposer.Addr.String(), "", title, title, false)
	if err != nil {
		return res, err
	}
	r, err := w.One(n, &TxReq{Signer: proposer, Msgs: []sdk.Msg{sub}, Label: "gov-submit(" + title + ")"})
	if err != nil {
		return res, err
	}
	res.SubmitCode, res.SubmitLog = r.Code, r.Log
	if !r.OK() {
		return res, nil
	}
	for _, e := range r.Events {
		if e.Type == "submit_proposal" {
			for _, a := range e.Attributes {
				if a.Key == "proposal_id" {
					res.ProposalID, _ = strconv.ParseUint(a.Value, 10, 64)
				}
			}
		}
	}
	if res.ProposalID == 0 {
		return res, fmt.Errorf("no proposal id in events of %s", r.Hash)
	}
	vote := govv1.NewMsgVote(proposer.Addr, res.ProposalID, govv1.OptionYes, "")
	vr, err := w.One(n, &TxReq{Signer: proposer, Msgs: []sdk.Msg{vote}, Label: "gov-vote"})
	if err != nil {
		return res, err
	}
	if !vr.OK() {
		return res, fmt.Errorf("vote failed: %s", vr.Log)
	}
	w.Tick(61 * time.Second)
	for i := 0; i < 2; i++ {
		if _, err := w.Block(n, nil, NoCrash); err != nil {
			return res, err
		}
	}
	p, err := n.App.GovKeeper.Proposals.Get(n.QueryCtx(), res.ProposalID)
	if err != nil {
		return res, err
	}
	res.Status = p.Status
	res.FailReason = p.FailedReason
	return res, nil
}
