package world

import (
	"crypto/sha256"
	"encoding/hex"
	"fmt"
	"time"

	abci "github.com/cometbft/cometbft/abci/types"
	cmtproto "github.com/cometbft/cometbft/proto/tendermint/types"
	dbm "github.com/cosmos/cosmos-db"
)

// ExportModules is the explicit module list used for genesis export: simapp's
// default order names feegrant (not registered in the module manager) and
// evidence (whose keeper has no store key); both are simapp wiring problems
// outside TIBC and are left out.
var ExportModules = []string{"auth", "bank", "distribution", "staking", "slashing", "gov", "mint", "crisis", "genutil",
	"params", "upgrade", "tibc", "nft", "NFT", "MT", "mt"}

// ExportAndReimport exports the committed state of n as a genesis and starts a
// fresh node from it on a new disk, positioned to execute block n.Height+1.
func (n *Node) ExportAndReimport() (*Node, error) {
	exp, err := n.App.ExportAppStateAndValidators(false, nil, ExportModules)
	if err != nil {
		return nil, fmt.Errorf("export %s: %w", n.Name, err)
	}
	sh := &Node{
		Name: n.Name, DB: dbm.NewMemDB(), Accts: n.Accts, vals: n.vals, ValSet: n.ValSet,
		acctNum: n.acctNum, appHash: map[int64][]byte{}, times: map[int64]time.Time{},
		hdrCache: map[int64]*cmtproto.SignedHeader{}, genesisTime: n.LastTime,
	}
	sh.App = newApp(sh.DB, n.Name)
	cp := exp.ConsensusParams
	_, err = sh.App.InitChain(&abci.RequestInitChain{
		ChainId: n.Name, Time: n.LastTime, Validators: []abci.ValidatorUpdate{}, ConsensusParams: &cp,
		AppStateBytes: exp.AppState, InitialHeight: n.Height + 1,
	})
	if err != nil {
		return nil, fmt.Errorf("re-import %s: %w", n.Name, err)
	}
	sh.Height = n.Height
	sh.LastTime = n.LastTime
	sh.genesisBytes = exp.AppState
	return sh, nil
}

// ApplyRecorded executes a block recorded on another node (same raw txs, same
// height and time) on this node.
func (n *Node) ApplyRecorded(rec *BlockRecord) (*BlockRecord, error) {
	if rec.Height != n.Height+1 {
		return nil, fmt.Errorf("shadow %s at height %d cannot apply block %d", n.Name, n.Height, rec.Height)
	}
	res, err := n.App.FinalizeBlock(&abci.RequestFinalizeBlock{
		Height: rec.Height, Time: rec.Time, Txs: rec.Txs, NextValidatorsHash: n.ValSet.Hash(),
		ProposerAddress: n.ValSet.Validators[0].Address,
	})
	if err != nil {
		return nil, fmt.Errorf("shadow FinalizeBlock %s h=%d: %w", n.Name, rec.Height, err)
	}
	out := &BlockRecord{Height: rec.Height, Time: rec.Time, Txs: rec.Txs, AppHash: res.AppHash}
	for i, tr := range res.TxResults {
		h := sha256.Sum256(rec.Txs[i])
		var req *TxReq
		if i < len(rec.Results) {
			req = rec.Results[i].Req
		}
		out.Results = append(out.Results, &TxResult{Req: req, Height: rec.Height, Index: i, Hash: hex.EncodeToString(h[:8]),
			Code: tr.Code, Space: tr.Codespace, Log: tr.Log, Gas: tr.GasUsed, Events: tr.Events, Raw: rec.Txs[i]})
	}
	if _, err := n.App.Commit(); err != nil {
		return nil, err
	}
	n.Height = rec.Height
	n.LastTime = rec.Time
	n.appHash[rec.Height] = append([]byte(nil), res.AppHash...)
	n.times[rec.Height] = rec.Time
	n.History = append(n.History, out)
	return out, nil
}

// Replica creates a fresh node with the same genesis as n (for re-execution).
func (n *Node) Replica() (*Node, error) {
	r := &Node{
		Name: n.Name, DB: dbm.NewMemDB(), Accts: n.Accts, vals: n.vals, ValSet: n.ValSet,
		acctNum: n.acctNum, appHash: map[int64][]byte{}, times: map[int64]time.Time{},
		hdrCache: map[int64]*cmtproto.SignedHeader{}, genesisTime: n.genesisTime, genesisBytes: n.genesisBytes,
	}
	r.App = newApp(r.DB, n.Name)
	if err := r.initChain(n.genesisBytes); err != nil {
		return nil, err
	}
	return r, nil
}

// GenesisBytes returns the genesis this node was started from.
func (n *Node) GenesisBytes() []byte { return n.genesisBytes }
