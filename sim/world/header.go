package world

import (
	"fmt"
	"time"

	"github.com/cometbft/cometbft/crypto"
	"github.com/cometbft/cometbft/crypto/tmhash"
	cmtproto "github.com/cometbft/cometbft/proto/tendermint/types"
	cmtprotoversion "github.com/cometbft/cometbft/proto/tendermint/version"
	cmttypes "github.com/cometbft/cometbft/types"
	cmtversion "github.com/cometbft/cometbft/version"

	clienttypes "github.com/bianjieai/tibc-go/modules/tibc/core/02-client/types"
	tmclient "github.com/bianjieai/tibc-go/modules/tibc/light-clients/07-tendermint/types"
)

// SignSpec describes how one validator of the header's set votes.
type SignSpec int

const (
	SignCommit  SignSpec = iota // valid precommit for the block
	SignAbsent                  // no vote
	SignNil                     // precommit for nil
	SignBadSig                  // BlockIDFlagCommit with a signature over other bytes
	SignOtherID                 // valid signature, but made for another chain id
)

// HeaderSpec is everything needed to build a signed Tendermint header.
type HeaderSpec struct {
	ChainID  string
	Height   int64
	Time     time.Time
	AppHash  []byte
	Vals     *cmttypes.ValidatorSet
	NextVals *cmttypes.ValidatorSet
	Signers  map[string]crypto.PrivKey // by validator address string
	Votes    []SignSpec                // per validator index of Vals; nil = all commit
	// overrides (nil = derived)
	ValidatorsHash     []byte
	NextValidatorsHash []byte
}

// MakeBlockID mirrors the unexported cometbft test helper.
func MakeBlockID(hash []byte, partSetSize uint32, partSetHash []byte) cmttypes.BlockID {
	return cmttypes.BlockID{Hash: hash, PartSetHeader: cmttypes.PartSetHeader{Total: partSetSize, Hash: partSetHash}}
}

// BuildSignedHeader creates the header and a commit according to spec.
func BuildSignedHeader(s HeaderSpec) (*cmtproto.SignedHeader, error) {
	vh := s.ValidatorsHash
	if vh == nil {
		vh = s.Vals.Hash()
	}
	nvh := s.NextValidatorsHash
	if nvh == nil {
		nvh = s.NextVals.Hash()
	}
	hdr := cmttypes.Header{
		Version:            cmtprotoversion.Consensus{Block: cmtversion.BlockProtocol, App: 2},
		ChainID:            s.ChainID,
		Height:             s.Height,
		Time:               s.Time,
		LastBlockID:        MakeBlockID(make([]byte, tmhash.Size), 10_000, make([]byte, tmhash.Size)),
		LastCommitHash:     tmhash.Sum([]byte("last_commit_hash")),
		DataHash:           tmhash.Sum([]byte("data_hash")),
		ValidatorsHash:     vh,
		NextValidatorsHash: nvh,
		ConsensusHash:      tmhash.Sum([]byte("consensus_hash")),
		AppHash:            s.AppHash,
		LastResultsHash:    tmhash.Sum([]byte("last_results_hash")),
		EvidenceHash:       tmhash.Sum([]byte("evidence_hash")),
		ProposerAddress:    s.Vals.Validators[0].Address,
	}
	blockID := MakeBlockID(hdr.Hash(), 3, tmhash.Sum([]byte("part_set")))
	commit := &cmttypes.Commit{Height: s.Height, Round: 1, BlockID: blockID}
	for i, v := range s.Vals.Validators {
		spec := SignCommit
		if s.Votes != nil && i < len(s.Votes) {
			spec = s.Votes[i]
		}
		priv := s.Signers[v.Address.String()]
		if spec == SignAbsent || priv == nil {
			commit.Signatures = append(commit.Signatures, cmttypes.NewCommitSigAbsent())
			continue
		}
		vote := &cmttypes.Vote{
			Type: cmtproto.PrecommitType, Height: s.Height, Round: 1, BlockID: blockID,
			Timestamp: s.Time, ValidatorAddress: v.Address, ValidatorIndex: int32(i),
		}
		flag := cmttypes.BlockIDFlagCommit
		chainID := s.ChainID
		switch spec {
		case SignNil:
			vote.BlockID = cmttypes.BlockID{}
			flag = cmttypes.BlockIDFlagNil
		case SignOtherID:
			chainID = s.ChainID + "x"
		}
		signBytes := cmttypes.VoteSignBytes(chainID, vote.ToProto())
		if spec == SignBadSig {
			signBytes = append(signBytes, 0x01)
		}
		sig, err := priv.Sign(signBytes)
		if err != nil {
			return nil, err
		}
		commit.Signatures = append(commit.Signatures, cmttypes.CommitSig{
			BlockIDFlag: flag, ValidatorAddress: v.Address, Timestamp: s.Time, Signature: sig,
		})
	}
	return &cmtproto.SignedHeader{Header: hdr.ToProto(), Commit: commit.ToProto()}, nil
}

func (n *Node) signers() map[string]crypto.PrivKey {
	m := map[string]crypto.PrivKey{}
	for _, v := range n.vals {
		m[v.val.Address.String()] = v.priv
	}
	return m
}

// SignedHeader returns the signed header of committed height h: time of block
// h, app hash after block h-1 (the Tendermint convention).
func (n *Node) SignedHeader(h int64) (*cmtproto.SignedHeader, error) {
	if h < 2 || h > n.Height {
		return nil, fmt.Errorf("no header %d on %s (height %d)", h, n.Name, n.Height)
	}
	if sh, ok := n.hdrCache[h]; ok {
		return sh, nil
	}
	sh, err := BuildSignedHeader(HeaderSpec{
		ChainID: n.Name, Height: h, Time: n.times[h], AppHash: n.appHash[h-1],
		Vals: n.ValSet, NextVals: n.ValSet, Signers: n.signers(),
	})
	if err != nil {
		return nil, err
	}
	n.hdrCache[h] = sh
	return sh, nil
}

// UpdateHeader builds the 07-tendermint Header for height h trusting trusted.
func (n *Node) UpdateHeader(h int64, trusted clienttypes.Height) (*tmclient.Header, error) {
	sh, err := n.SignedHeader(h)
	if err != nil {
		return nil, err
	}
	vs, err := n.ValSet.ToProto()
	if err != nil {
		return nil, err
	}
	return &tmclient.Header{SignedHeader: sh, ValidatorSet: vs, TrustedHeight: trusted, TrustedValidators: vs}, nil
}

// ConsensusStateAt returns the consensus state a client of this chain would
// hold for height h.
func (n *Node) ConsensusStateAt(h int64) (*tmclient.ConsensusState, error) {
	sh, err := n.SignedHeader(h)
	if err != nil {
		return nil, err
	}
	hd := &tmclient.Header{SignedHeader: sh}
	return hd.ConsensusState(), nil
}
