package world

import (
	"bytes"
	"math/big"
	"sort"

	"github.com/cosmos/gogoproto/proto"
	authtypes "github.com/cosmos/cosmos-sdk/x/auth/types"

	mttypes "mods.irisnet.org/modules/mt/types"
)

// NFTInfo is one NFT as reported by the NFT module of a chain.
type NFTInfo struct {
	Class, ID, Owner, URI string
}

// NFTSnapshot lists every NFT on the chain (committed state), sorted.
func (n *Node) NFTSnapshot() ([]NFTInfo, []string) {
	ctx := n.QueryCtx()
	cs, err := n.App.NftKeeper.GetCollections(ctx)
	if err != nil {
		panic(err)
	}
	var out []NFTInfo
	var classes []string
	for _, c := range cs {
		classes = append(classes, c.Denom.Id)
		for _, t := range c.NFTs {
			out = append(out, NFTInfo{Class: c.Denom.Id, ID: t.Id, Owner: t.Owner, URI: t.URI})
		}
	}
	sort.Slice(out, func(i, j int) bool {
		if out[i].Class != out[j].Class {
			return out[i].Class < out[j].Class
		}
		return out[i].ID < out[j].ID
	})
	sort.Strings(classes)
	return out, classes
}

// NFTOwner returns the owner of an NFT ("" if it does not exist).
func (n *Node) NFTOwner(class, id string) string {
	t, err := n.App.NftKeeper.GetNFT(n.QueryCtx(), class, id)
	if err != nil || t == nil {
		return ""
	}
	return t.GetOwner().String()
}

// MTBalance is one multi-token balance entry.
type MTBalance struct {
	Owner, Class, ID string
	Amount          uint64
}

type MTSupply struct {
	Class, ID string
	Supply    uint64
}

// MTSnapshot reads all balances and per-MT supplies from the committed MT store.
func (n *Node) MTSnapshot() ([]MTBalance, []MTSupply) {
	ctx := n.QueryCtx()
	store := ctx.KVStore(n.App.GetKey(mttypes.StoreKey))
	var bals []MTBalance
	it := store.Iterator(nil, nil)
	defer it.Close()
	var sups []MTSupply
	for ; it.Valid(); it.Next() {
		k := it.Key()
		if len(k) < 2 {
			continue
		}
		parts := bytes.Split(k[2:], []byte("/"))
		switch k[0] {
		case mttypes.PrefixBalance[0]:
			if len(parts) != 3 {
				continue
			}
			bals = append(bals, MTBalance{Owner: string(parts[0]), Class: string(parts[1]), ID: string(parts[2]), Amount: decodeU64(it.Value())})
		case mttypes.PrefixSupply[0]:
			if len(parts) != 2 || len(parts[1]) == 0 {
				continue // denom-level counter
			}
			sups = append(sups, MTSupply{Class: string(parts[0]), ID: string(parts[1]), Supply: decodeU64(it.Value())})
		}
	}
	return bals, sups
}

// decodeU64 decodes the gogoproto UInt64Value the MT module stores.
func decodeU64(bz []byte) uint64 {
	// message { uint64 value = 1; } -> 0x08 varint
	if len(bz) == 0 {
		return 0
	}
	v, n := proto.DecodeVarint(bz[1:])
	if bz[0] != 0x08 || n == 0 {
		panic("unexpected MT amount encoding")
	}
	return v
}

func (n *Node) MTBalanceOf(owner, class, id string) uint64 {
	bals, _ := n.MTSnapshot()
	for _, b := range bals {
		if b.Owner == owner && b.Class == class && b.ID == id {
			return b.Amount
		}
	}
	return 0
}

// ModuleAddr returns the bech32 address of a module account.
func ModuleAddr(name string) string { return authtypes.NewModuleAddress(name).String() }

var _ = big.NewInt
