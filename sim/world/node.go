// Package world holds the simulated chains (real SimApp instances behind
// ABCI), their clocks, mempools, crash/restart and export/import machinery.
package world

import (
	"context"
	"crypto/sha256"
	"encoding/hex"
	"encoding/json"
	"fmt"
	"sort"
	"time"

	"cosmossdk.io/log"
	sdkmath "cosmossdk.io/math"
	storetypes "cosmossdk.io/store/types"
	abci "github.com/cometbft/cometbft/abci/types"
	cmted25519 "github.com/cometbft/cometbft/crypto/ed25519"
	cmtproto "github.com/cometbft/cometbft/proto/tendermint/types"
	cmttypes "github.com/cometbft/cometbft/types"
	dbm "github.com/cosmos/cosmos-db"
	"github.com/cosmos/cosmos-sdk/baseapp"
	codectypes "github.com/cosmos/cosmos-sdk/codec/types"
	cryptocodec "github.com/cosmos/cosmos-sdk/crypto/codec"
	"github.com/cosmos/cosmos-sdk/crypto/keys/secp256k1"
	sdk "github.com/cosmos/cosmos-sdk/types"
	"github.com/cosmos/cosmos-sdk/types/tx/signing"
	authsign "github.com/cosmos/cosmos-sdk/x/auth/signing"
	authtypes "github.com/cosmos/cosmos-sdk/x/auth/types"
	banktypes "github.com/cosmos/cosmos-sdk/x/bank/types"
	govtypesv1 "github.com/cosmos/cosmos-sdk/x/gov/types/v1"
	stakingtypes "github.com/cosmos/cosmos-sdk/x/staking/types"

	clienttypes "github.com/bianjieai/tibc-go/modules/tibc/core/02-client/types"
	host "github.com/bianjieai/tibc-go/modules/tibc/core/24-host"
	"github.com/bianjieai/tibc-go/simapp"
)

// Account is a seeded key; the same accounts exist on every chain.
type Account struct {
	Name string
	Priv *secp256k1.PrivKey
	Addr sdk.AccAddress
}

func (a *Account) String() string { return a.Addr.String() }

// NewAccount derives an account from a secret string (deterministic).
func NewAccount(name, secret string) *Account {
	priv := secp256k1.GenPrivKeyFromSecret([]byte(secret))
	return &Account{Name: name, Priv: priv, Addr: sdk.AccAddress(priv.PubKey().Address())}
}

// TxReq is a transaction waiting in a node's mempool.  It is signed when it is
// put into a block so that account sequences are always current (unless
// SeqDelta asks for a deliberately wrong sequence).
type TxReq struct {
	Signer   *Account
	Msgs     []sdk.Msg
	SeqDelta int         // added to the correct account sequence (0 = valid)
	Meta     interface{} // opaque to the node; given back in TxResult
	Label    string
}

// TxResult is what the chain reported for one transaction of a block.
type TxResult struct {
	Req    *TxReq
	Height int64
	Index  int
	Hash   string
	Code   uint32
	Space  string
	Log    string
	Gas    int64
	Events []abci.Event
	Raw    []byte
}

func (r *TxResult) OK() bool { return r.Code == 0 }

// BlockRecord is one entry of the recorded ABCI history of a node.
type BlockRecord struct {
	Height  int64
	Time    time.Time
	Txs     [][]byte
	Results []*TxResult
	AppHash []byte // after this block
}

type validator struct {
	priv cmted25519.PrivKey
	val  *cmttypes.Validator
}

// Node is one simulated chain node.  DB is the disk: it survives Crash; App is
// volatile.
type Node struct {
	Name    string // chain id == tibc chain name
	DB      *dbm.MemDB
	App     *simapp.SimApp
	vals    []validator
	ValSet  *cmttypes.ValidatorSet
	Accts   []*Account
	acctNum map[string]uint64

	Height   int64     // last committed height
	LastTime time.Time // time of last committed block
	appHash  map[int64][]byte
	times    map[int64]time.Time
	History  []*BlockRecord
	Mempool  []*TxReq
	hdrCache map[int64]*cmtproto.SignedHeader

	// pending (finalized, not committed) block, for crash injection
	pending *BlockRecord
	Down    bool

	genesisBytes []byte
	genesisTime  time.Time
}

// NodeConfig describes a chain to start.
type NodeConfig struct {
	Name         string
	NumVals      int
	Accounts     []*Account
	GenesisTime  time.Time
	VotingPeriod time.Duration
}

var bondAmt = sdk.TokensFromConsensusPower(1, sdk.DefaultPowerReduction)

func newApp(db dbm.DB, chainID string) *simapp.SimApp {
	return simapp.NewSimApp(log.NewNopLogger(), db, nil, true, simapp.EmptyAppOptions{}, baseapp.SetChainID(chainID))
}

// StartNode creates genesis and commits block 1.
func StartNode(cfg NodeConfig) (*Node, error) {
	n := &Node{
		Name: cfg.Name, DB: dbm.NewMemDB(), Accts: cfg.Accounts,
		acctNum: map[string]uint64{}, appHash: map[int64][]byte{}, times: map[int64]time.Time{},
		hdrCache: map[int64]*cmtproto.SignedHeader{}, genesisTime: cfg.GenesisTime,
	}
	n.App = newApp(n.DB, cfg.Name)
	var vs []*cmttypes.Validator
	for i := 0; i < cfg.NumVals; i++ {
		priv := cmted25519.GenPrivKeyFromSecret([]byte(fmt.Sprintf("val/%s/%d", cfg.Name, i)))
		v := cmttypes.NewValidator(priv.PubKey(), 1)
		n.vals = append(n.vals, validator{priv: priv, val: v})
		vs = append(vs, v)
	}
	n.ValSet = cmttypes.NewValidatorSet(vs)

	gs, err := n.buildGenesis(cfg)
	if err != nil {
		return nil, err
	}
	n.genesisBytes = gs
	if err := n.initChain(gs); err != nil {
		return nil, err
	}
	return n, nil
}

func (n *Node) buildGenesis(cfg NodeConfig) ([]byte, error) {
	cdc := n.App.AppCodec()
	genesis := simapp.NewDefaultGenesisState(cdc)

	var genAccs []authtypes.GenesisAccount
	var balances []banktypes.Balance
	amount, _ := sdkmath.NewIntFromString("10000000000000000000")
	for i, a := range cfg.Accounts {
		acc := authtypes.NewBaseAccount(a.Addr, a.Priv.PubKey(), uint64(i), 0)
		genAccs = append(genAccs, acc)
		balances = append(balances, banktypes.Balance{Address: a.Addr.String(), Coins: sdk.NewCoins(sdk.NewCoin(sdk.DefaultBondDenom, amount))})
		n.acctNum[a.Addr.String()] = uint64(i)
	}
	genesis[authtypes.ModuleName] = cdc.MustMarshalJSON(authtypes.NewGenesisState(authtypes.DefaultParams(), genAccs))

	var validators []stakingtypes.Validator
	var delegations []stakingtypes.Delegation
	for _, val := range n.ValSet.Validators {
		pk, err := cryptocodec.FromCmtPubKeyInterface(val.PubKey)
		if err != nil {
			return nil, err
		}
		pkAny, err := codectypes.NewAnyWithValue(pk)
		if err != nil {
			return nil, err
		}
		validators = append(validators, stakingtypes.Validator{
			OperatorAddress: sdk.ValAddress(val.Address).String(), ConsensusPubkey: pkAny,
			Status: stakingtypes.Bonded, Tokens: bondAmt, DelegatorShares: sdkmath.LegacyOneDec(),
			UnbondingTime: time.Unix(0, 0).UTC(), MinSelfDelegation: sdkmath.ZeroInt(),
			Commission: stakingtypes.NewCommission(sdkmath.LegacyZeroDec(), sdkmath.LegacyZeroDec(), sdkmath.LegacyZeroDec()),
		})
		delegations = append(delegations, stakingtypes.NewDelegation(genAccs[0].GetAddress().String(), sdk.ValAddress(val.Address.Bytes()).String(), sdkmath.LegacyOneDec()))
	}
	var stakingGenesis stakingtypes.GenesisState
	cdc.MustUnmarshalJSON(genesis[stakingtypes.ModuleName], &stakingGenesis)
	balances = append(balances, banktypes.Balance{
		Address: authtypes.NewModuleAddress(stakingtypes.BondedPoolName).String(),
		Coins:   sdk.Coins{sdk.NewCoin(stakingGenesis.Params.BondDenom, bondAmt.Mul(sdkmath.NewInt(int64(len(validators)))))},
	})
	stakingGenesis = *stakingtypes.NewGenesisState(stakingGenesis.Params, validators, delegations)
	genesis[stakingtypes.ModuleName] = cdc.MustMarshalJSON(&stakingGenesis)
	genesis[banktypes.ModuleName] = cdc.MustMarshalJSON(banktypes.NewGenesisState(banktypes.DefaultGenesisState().Params, balances, sdk.NewCoins(), []banktypes.Metadata{}, []banktypes.SendEnabled{}))

	// short voting period so that proposals complete inside a run
	var govGenesis govtypesv1.GenesisState
	cdc.MustUnmarshalJSON(genesis["gov"], &govGenesis)
	vp := cfg.VotingPeriod
	if vp == 0 {
		vp = 60 * time.Second
	}
	evp := vp / 2
	govGenesis.Params.VotingPeriod = &vp
	govGenesis.Params.ExpeditedVotingPeriod = &evp
	genesis["gov"] = cdc.MustMarshalJSON(&govGenesis)

	// native chain name through the TIBC genesis
	var tibcGen map[string]json.RawMessage
	if err := json.Unmarshal(genesis[host.ModuleName], &tibcGen); err != nil {
		return nil, err
	}
	var cgs clienttypes.GenesisState
	cdc.MustUnmarshalJSON(tibcGen["client_genesis"], &cgs)
	cgs.NativeChainName = cfg.Name
	tibcGen["client_genesis"] = cdc.MustMarshalJSON(&cgs)
	bz, err := json.Marshal(tibcGen)
	if err != nil {
		return nil, err
	}
	genesis[host.ModuleName] = bz

	return json.Marshal(genesis)
}

func (n *Node) initChain(stateBytes []byte) error {
	_, err := n.App.InitChain(&abci.RequestInitChain{
		ChainId: n.Name, Time: n.genesisTime, Validators: []abci.ValidatorUpdate{},
		ConsensusParams: simapp.DefaultConsensusParams, AppStateBytes: stateBytes, InitialHeight: 1,
	})
	if err != nil {
		return fmt.Errorf("InitChain %s: %w", n.Name, err)
	}
	n.Height = 0
	n.LastTime = n.genesisTime
	return nil
}

// AccountSeq reads the committed account sequence.
func (n *Node) AccountSeq(a *Account) uint64 {
	ctx := n.QueryCtx()
	acc := n.App.AccountKeeper.GetAccount(ctx, a.Addr)
	if acc == nil {
		return 0
	}
	return acc.GetSequence()
}

func (n *Node) AccountNum(a *Account) uint64 {
	if v, ok := n.acctNum[a.Addr.String()]; ok {
		return v
	}
	ctx := n.QueryCtx()
	acc := n.App.AccountKeeper.GetAccount(ctx, a.Addr)
	if acc == nil {
		return 0
	}
	return acc.GetAccountNumber()
}

// QueryCtx returns a read-only context on the last committed state.
func (n *Node) QueryCtx() sdk.Context {
	ctx, err := n.App.CreateQueryContext(0, false)
	if err != nil {
		panic(fmt.Sprintf("query ctx %s: %v", n.Name, err))
	}
	return ctx.WithBlockTime(n.LastTime)
}

// QueryCtxAt returns a read-only context on committed state with the given block time.
func (n *Node) QueryCtxAt(t time.Time) sdk.Context {
	return n.QueryCtx().WithBlockTime(t)
}

// SetupCtx returns a context writing straight into the root store (world
// set-up only; persisted by the next Commit).
func (n *Node) SetupCtx() sdk.Context {
	return n.App.BaseApp.NewUncachedContext(false, cmtproto.Header{ChainID: n.Name, Height: n.Height + 1, Time: n.LastTime})
}

func (n *Node) signTx(req *TxReq, seq uint64) ([]byte, error) {
	txCfg := n.App.GetTxConfig()
	signMode, err := authsign.APISignModeToInternal(txCfg.SignModeHandler().DefaultMode())
	if err != nil {
		return nil, err
	}
	p := req.Signer.Priv
	sig := signing.SignatureV2{PubKey: p.PubKey(), Data: &signing.SingleSignatureData{SignMode: signMode}, Sequence: seq}
	b := txCfg.NewTxBuilder()
	if err := b.SetMsgs(req.Msgs...); err != nil {
		return nil, err
	}
	if err := b.SetSignatures(sig); err != nil {
		return nil, err
	}
	b.SetMemo("")
	b.SetFeeAmount(sdk.Coins{sdk.NewInt64Coin(sdk.DefaultBondDenom, 0)})
	b.SetGasLimit(30_000_000)
	signerData := authsign.SignerData{
		Address: req.Signer.Addr.String(), ChainID: n.Name,
		AccountNumber: n.AccountNum(req.Signer), Sequence: seq, PubKey: p.PubKey(),
	}
	signBytes, err := authsign.GetSignBytesAdapter(context.Background(), txCfg.SignModeHandler(), signMode, signerData, b.GetTx())
	if err != nil {
		return nil, err
	}
	sigBz, err := p.Sign(signBytes)
	if err != nil {
		return nil, err
	}
	sig.Data.(*signing.SingleSignatureData).Signature = sigBz
	if err := b.SetSignatures(sig); err != nil {
		return nil, err
	}
	return txCfg.TxEncoder()(b.GetTx())
}

// Submit puts a tx request into the mempool.
func (n *Node) Submit(req *TxReq) { n.Mempool = append(n.Mempool, req) }

// CrashPoint says where a crash is injected relative to a block.
type CrashPoint int

const (
	NoCrash CrashPoint = iota
	CrashBeforeFinalize
	CrashAfterFinalize // between FinalizeBlock and Commit
	CrashAfterCommit
)

// ProduceBlock executes the given requests (in order) as one block at time t.
// With crash != NoCrash the node goes down at that point.
func (n *Node) ProduceBlock(t time.Time, reqs []*TxReq, crash CrashPoint) (*BlockRecord, error) {
	if n.Down {
		return nil, fmt.Errorf("node %s is down", n.Name)
	}
	if !t.After(n.LastTime) {
		t = n.LastTime.Add(time.Nanosecond)
	}
	if crash == CrashBeforeFinalize {
		n.crash()
		return nil, nil
	}
	seqs := map[string]uint64{}
	rec := &BlockRecord{Height: n.Height + 1, Time: t}
	for _, r := range reqs {
		key := r.Signer.Addr.String()
		if _, ok := seqs[key]; !ok {
			seqs[key] = n.AccountSeq(r.Signer)
		}
		seq := uint64(int64(seqs[key]) + int64(r.SeqDelta))
		bz, err := n.signTx(r, seq)
		if err != nil {
			return nil, fmt.Errorf("sign: %w", err)
		}
		if r.SeqDelta == 0 {
			seqs[key]++
		}
		rec.Txs = append(rec.Txs, bz)
	}
	res, err := n.App.FinalizeBlock(&abci.RequestFinalizeBlock{
		Height: rec.Height, Time: t, Txs: rec.Txs, NextValidatorsHash: n.ValSet.Hash(),
		ProposerAddress: n.ValSet.Validators[0].Address,
	})
	if err != nil {
		return nil, fmt.Errorf("FinalizeBlock %s h=%d: %w", n.Name, rec.Height, err)
	}
	if len(res.ValidatorUpdates) != 0 && rec.Height > 1 {
		return nil, fmt.Errorf("unexpected validator updates on %s at %d", n.Name, rec.Height)
	}
	for i, tr := range res.TxResults {
		h := sha256.Sum256(rec.Txs[i])
		rec.Results = append(rec.Results, &TxResult{
			Req: reqs[i], Height: rec.Height, Index: i, Hash: hex.EncodeToString(h[:8]),
			Code: tr.Code, Space: tr.Codespace, Log: tr.Log, Gas: tr.GasUsed, Events: tr.Events, Raw: rec.Txs[i],
		})
	}
	rec.AppHash = res.AppHash
	n.pending = rec
	if crash == CrashAfterFinalize {
		n.crash()
		return rec, nil
	}
	if _, err := n.App.Commit(); err != nil {
		return nil, fmt.Errorf("Commit %s: %w", n.Name, err)
	}
	n.pending = nil
	n.Height = rec.Height
	n.LastTime = t
	n.appHash[rec.Height] = append([]byte(nil), res.AppHash...)
	n.times[rec.Height] = t
	n.History = append(n.History, rec)
	if crash == CrashAfterCommit {
		n.crash()
	}
	return rec, nil
}

func (n *Node) crash() {
	n.App = nil
	n.pending = nil
	n.Down = true
}

// Restart builds a fresh application on the surviving disk.
func (n *Node) Restart() error {
	n.App = newApp(n.DB, n.Name)
	n.Down = false
	if got := n.App.LastBlockHeight(); got != n.Height {
		return fmt.Errorf("durability: node %s restarted at height %d, committed %d", n.Name, got, n.Height)
	}
	if n.Height > 0 {
		want := n.appHash[n.Height]
		got := n.App.LastCommitID().Hash
		if hex.EncodeToString(want) != hex.EncodeToString(got) {
			return fmt.Errorf("durability: node %s app hash after restart %x != committed %x", n.Name, got, want)
		}
	}
	return nil
}

func (n *Node) AppHashAt(h int64) []byte { return n.appHash[h] }
func (n *Node) TimeAt(h int64) time.Time { return n.times[h] }

// StoreDump returns the committed contents of the named KV stores as a sorted
// list of "store|hexkey" -> hexvalue.
type KV struct{ K, V string }

func (n *Node) StoreDump(stores ...string) []KV {
	ctx := n.QueryCtx()
	var out []KV
	for _, s := range stores {
		key := n.App.GetKey(s)
		if key == nil {
			continue
		}
		it := ctx.KVStore(key).Iterator(nil, nil)
		for ; it.Valid(); it.Next() {
			out = append(out, KV{K: s + "|" + string(it.Key()), V: string(it.Value())})
		}
		it.Close()
	}
	return out
}

// DumpMap is StoreDump as a map.
func (n *Node) DumpMap(stores ...string) map[string]string {
	m := map[string]string{}
	for _, kv := range n.StoreDump(stores...) {
		m[kv.K] = kv.V
	}
	return m
}

// DiffDumps returns the sorted keys whose values differ between a and b.
func DiffDumps(a, b map[string]string) []string {
	seen := map[string]bool{}
	var out []string
	for k, v := range a {
		if bv, ok := b[k]; !ok || bv != v {
			if !seen[k] {
				seen[k] = true
				out = append(out, k)
			}
		}
	}
	for k := range b {
		if _, ok := a[k]; !ok && !seen[k] {
			seen[k] = true
			out = append(out, k)
		}
	}
	sort.Strings(out)
	return out
}

var _ = storetypes.StoreKey(nil)
