package world

import (
	"crypto/sha256"
	"encoding/hex"
	"fmt"
	"os"
	"sort"
	"strings"
	"time"

	sdk "github.com/cosmos/cosmos-sdk/types"

	clienttypes "github.com/bianjieai/tibc-go/modules/tibc/core/02-client/types"
	packettypes "github.com/bianjieai/tibc-go/modules/tibc/core/04-packet/types"
	commitmenttypes "github.com/bianjieai/tibc-go/modules/tibc/core/23-commitment/types"
	host "github.com/bianjieai/tibc-go/modules/tibc/core/24-host"
	tmclient "github.com/bianjieai/tibc-go/modules/tibc/light-clients/07-tendermint/types"

	"tibcsim/chooser"
)

// Observer is fed every committed block (models, oracles).
type Observer interface {
	OnBlock(n *Node, rec *BlockRecord)
}

// Stats counts what actually happened in a run (fault kinds fired, probes).
type Stats map[string]int

func (s Stats) Inc(k string)        { s[k]++ }
func (s Stats) Add(k string, n int) { s[k] += n }

// World is one simulated universe: chains, accounts, a global simulated clock.
type World struct {
	Ch        *chooser.Chooser
	Nodes     []*Node
	ByName    map[string]*Node
	Users     []*Account
	Relayers  []*Account
	Base      time.Time
	Now       time.Duration // simulated time since Base
	Skew      map[string]time.Duration
	Observers []Observer
	Stats     Stats
	Log       *EventLog
	Blocks    int
	Txs       int
	// KeepPrints records a byte-exact fingerprint of every block (C20).
	KeepPrints bool
	Prints     []string
	// Noise, when set, is called at ABCI boundaries (before FinalizeBlock and
	// after Commit) to inject CheckTx / Simulate / query traffic that must
	// never influence results.
	Noise func(n *Node, when string)
	// ForceTime makes the next block of a chain carry exactly this time (clock jump).
	ForceTime map[string]time.Time
}

// JumpTo schedules the next block of n at exactly t (must be in the future).
func (w *World) JumpTo(n *Node, t time.Time) {
	if w.ForceTime == nil {
		w.ForceTime = map[string]time.Time{}
	}
	w.ForceTime[n.Name] = t
}

// EventLog is the canonical per-run log; its hash is the run fingerprint.
type EventLog struct {
	Lines []string
	h     [32]byte
	Keep  int // keep at most this many lines verbatim (0 = all)
}

func (l *EventLog) Add(format string, args ...interface{}) {
	line := fmt.Sprintf(format, args...)
	sum := sha256.Sum256(append(l.h[:], []byte(line)...))
	l.h = sum
	if l.Keep == 0 || len(l.Lines) < l.Keep {
		l.Lines = append(l.Lines, line)
	}
}
func (l *EventLog) Hash() string { return hex.EncodeToString(l.h[:]) }

// Tail returns the last k lines.
func (l *EventLog) Tail(k int) []string {
	if len(l.Lines) <= k {
		return l.Lines
	}
	return l.Lines[len(l.Lines)-k:]
}

// BaseTime is the fixed origin of simulated time.
var BaseTime = time.Date(2030, 1, 1, 0, 0, 0, 0, time.UTC)

// WorldConfig describes the chains to start.
type WorldConfig struct {
	ChainNames []string
	NumVals    []int
	NumUsers   int
	Base       time.Time
}

func NewWorld(ch *chooser.Chooser, cfg WorldConfig) (*World, error) {
	w := &World{Ch: ch, ByName: map[string]*Node{}, Base: cfg.Base, Skew: map[string]time.Duration{}, Stats: Stats{}, Log: &EventLog{}}
	if w.Base.IsZero() {
		w.Base = BaseTime
	}
	if cfg.NumUsers == 0 {
		cfg.NumUsers = 3
	}
	for i := 0; i < cfg.NumUsers; i++ {
		w.Users = append(w.Users, NewAccount(fmt.Sprintf("user%d", i), fmt.Sprintf("tibcsim/user/%d", i)))
	}
	for i := 0; i < 2; i++ {
		w.Relayers = append(w.Relayers, NewAccount(fmt.Sprintf("relayer%d", i), fmt.Sprintf("tibcsim/relayer/%d", i)))
	}
	accts := append(append([]*Account{}, w.Users...), w.Relayers...)
	for i, name := range cfg.ChainNames {
		nv := 1
		if i < len(cfg.NumVals) && cfg.NumVals[i] > 0 {
			nv = cfg.NumVals[i]
		}
		n, err := StartNode(NodeConfig{Name: name, NumVals: nv, Accounts: accts, GenesisTime: w.Base})
		if err != nil {
			return nil, err
		}
		w.Nodes = append(w.Nodes, n)
		w.ByName[name] = n
	}
	// two blocks everywhere so that header 2 exists
	for k := 0; k < 2; k++ {
		for _, n := range w.Nodes {
			if _, err := w.Block(n, nil, NoCrash); err != nil {
				return nil, err
			}
		}
	}
	return w, nil
}

// Tick advances simulated time.
func (w *World) Tick(d time.Duration) { w.Now += d }

// TimeOn is the block time chain c would stamp now.
func (w *World) TimeOn(n *Node) time.Time { return w.Base.Add(w.Now + w.Skew[n.Name]) }

// Block produces a block on n with the given requests; feeds observers.
func (w *World) Block(n *Node, reqs []*TxReq, crash CrashPoint) (*BlockRecord, error) {
	// every block moves simulated time by 1-6 s plus a non-zero sub-second part
	w.Tick(time.Second + time.Duration(1+(w.Blocks*37)%977)*time.Millisecond + 137*time.Nanosecond)
	if w.Noise != nil && !n.Down {
		w.Noise(n, "before-finalize")
	}
	if t, ok := w.ForceTime[n.Name]; ok {
		// a clock jump to an exact instant (expiry boundaries): align the world clock with it
		delete(w.ForceTime, n.Name)
		if d := t.Sub(w.Base) - w.Skew[n.Name]; d > w.Now {
			w.Now = d
		}
	}
	rec, err := n.ProduceBlock(w.TimeOn(n), reqs, crash)
	if err != nil {
		return nil, err
	}
	if w.Noise != nil && !n.Down {
		w.Noise(n, "after-commit")
	}
	if rec == nil {
		w.Log.Add("t=%v %s crash before finalize", w.Now, n.Name)
		return nil, nil
	}
	if n.Down && n.Height < rec.Height { // crashed between finalize and commit
		w.Log.Add("t=%v %s block %d LOST (crash after finalize) txs=%d", w.Now, n.Name, rec.Height, len(rec.Txs))
		return rec, nil
	}
	if n.Down { // crashed right after Commit: the block is durable; bring the node back before anyone looks at it
		w.Log.Add("t=%v %s crash after commit of block %d, restart", w.Now, n.Name, rec.Height)
		if err := n.Restart(); err != nil {
			return nil, err
		}
	}
	w.Blocks++
	w.Txs += len(rec.Txs)
	w.Log.Add("t=%v %s block %d apphash=%x txs=%d", w.Now, n.Name, rec.Height, rec.AppHash[:6], len(rec.Txs))
	for _, r := range rec.Results {
		w.Log.Add("  tx %s %s code=%d/%s gas=%d", r.Hash, r.Req.Label, r.Code, r.Space, r.Gas)
	}
	if w.KeepPrints {
		w.Prints = append(w.Prints, BlockPrint(n.Name, rec))
		if dbg := os.Getenv("VERIF_PRINT_EVENTS"); dbg != "" && dbg == fmt.Sprintf("%s#%d", n.Name, rec.Height) {
			for _, r := range rec.Results {
				fmt.Fprintf(os.Stderr, "TX %s code=%d gas=%d\n", r.Req.Label, r.Code, r.Gas)
				for _, e := range r.Events {
					fmt.Fprintf(os.Stderr, "  EV %s", e.Type)
					for _, a := range e.Attributes {
						fmt.Fprintf(os.Stderr, " %s=%q", a.Key, Short(a.Value, 60))
					}
					fmt.Fprintln(os.Stderr)
				}
			}
		}
	}
	for _, o := range w.Observers {
		o.OnBlock(n, rec)
	}
	return rec, nil
}

// BlockPrint is the byte-exact fingerprint of a block's outcome: app hash and
// for every tx code, codespace, log, gas and all events.
func BlockPrint(chain string, rec *BlockRecord) string {
	h := sha256.New()
	fmt.Fprintf(h, "%s/%d/%x/", chain, rec.Height, rec.AppHash)
	logOnly := sha256.New()
	for _, r := range rec.Results {
		fmt.Fprintf(h, "tx:%d/%s/%d/", r.Code, r.Space, r.Gas)
		for _, e := range r.Events {
			fmt.Fprintf(h, "ev:%s/", e.Type)
			for _, a := range e.Attributes {
				fmt.Fprintf(h, "%d:%s=%d:%s/%v/", len(a.Key), a.Key, len(a.Value), a.Value, a.Index)
			}
		}
		fmt.Fprintf(logOnly, "%d:%s/", len(r.Log), r.Log)
	}
	return fmt.Sprintf("%s#%d app=%x results=%x logs=%x", chain, rec.Height, rec.AppHash, h.Sum(nil)[:12], logOnly.Sum(nil)[:8])
}

// BlockFromMempool produces a block from (a prefix/subset of) the mempool.
func (w *World) BlockFromMempool(n *Node, max int) (*BlockRecord, error) {
	reqs := n.Mempool
	if max > 0 && len(reqs) > max {
		reqs = reqs[:max]
	}
	n.Mempool = append([]*TxReq(nil), n.Mempool[len(reqs):]...)
	return w.Block(n, reqs, NoCrash)
}

// One executes a single tx in its own block and returns its result.
func (w *World) One(n *Node, req *TxReq) (*TxResult, error) {
	rec, err := w.Block(n, []*TxReq{req}, NoCrash)
	if err != nil {
		return nil, err
	}
	return rec.Results[0], nil
}

// ClientParams are the knobs of a Tendermint client.
type ClientParams struct {
	TrustLevel     tmclient.Fraction
	TrustingPeriod time.Duration
	Unbonding      time.Duration
	MaxClockDrift  time.Duration
	TimeDelay      uint64
}

func DefaultClientParams() ClientParams {
	return ClientParams{
		TrustLevel: tmclient.DefaultTrustLevel, TrustingPeriod: 14 * 24 * time.Hour,
		Unbonding: 21 * 24 * time.Hour, MaxClockDrift: 10 * time.Second,
	}
}

var TibcPrefix = commitmenttypes.MerklePrefix{KeyPrefix: []byte(host.StoreKey)}

// CreateClient (set-up) stores on `on` a Tendermint client of chain `of` at
// of's latest height and registers the world's relayers for it.
func (w *World) CreateClient(on, of *Node, p ClientParams) error {
	h := of.Height
	cons, err := of.ConsensusStateAt(h)
	if err != nil {
		return err
	}
	cs := tmclient.NewClientState(of.Name, p.TrustLevel, p.TrustingPeriod, p.Unbonding, p.MaxClockDrift,
		clienttypes.NewHeight(Revision(of.Name), uint64(h)), commitmenttypes.GetSDKSpecs(), TibcPrefix, p.TimeDelay)
	ctx := on.SetupCtx().WithBlockTime(w.TimeOn(on))
	if err := on.App.TIBCKeeper.ClientKeeper.CreateClient(ctx, of.Name, cs, cons); err != nil {
		return err
	}
	var rs []string
	for _, r := range w.Relayers {
		rs = append(rs, r.Addr.String())
	}
	on.App.TIBCKeeper.ClientKeeper.RegisterRelayers(ctx, of.Name, rs)
	return nil
}

// ConnectAll creates clients between every ordered pair and commits.
func (w *World) ConnectAll(p ClientParams) error {
	for _, a := range w.Nodes {
		for _, b := range w.Nodes {
			if a != b {
				if err := w.CreateClient(a, b, p); err != nil {
					return err
				}
			}
		}
	}
	for _, n := range w.Nodes {
		if _, err := w.Block(n, nil, NoCrash); err != nil {
			return err
		}
	}
	return nil
}

// SetRules (set-up) stores routing rules on n.
func (w *World) SetRules(n *Node, rules []string) error {
	return n.App.TIBCKeeper.RoutingKeeper.SetRoutingRules(n.SetupCtx(), rules)
}

// ---- relayer message builders (queries only, no keeper writes) ----

// ClientLatest returns the latest height dst's client of src knows.
func (w *World) ClientLatest(dst *Node, src string) (clienttypes.Height, bool) {
	cs, ok := dst.ClientState(src)
	if !ok {
		return clienttypes.Height{}, false
	}
	return cs.GetLatestHeight().(clienttypes.Height), true
}

// MsgUpdate builds an update of dst's client of src to src height h, trusting
// the client's latest height.
func (w *World) MsgUpdate(dst, src *Node, h int64, signer *Account) (*clienttypes.MsgUpdateClient, error) {
	latest, ok := w.ClientLatest(dst, src.Name)
	if !ok {
		return nil, fmt.Errorf("no client of %s on %s", src.Name, dst.Name)
	}
	hdr, err := src.UpdateHeader(h, latest)
	if err != nil {
		return nil, err
	}
	return clienttypes.NewMsgUpdateClient(src.Name, hdr, signer.Addr)
}

// MsgRecv builds a MsgRecvPacket proving the commitment from `prover` at IAVL version v.
func (w *World) MsgRecv(p packettypes.Packet, prover *Node, v int64, signer *Account) (*packettypes.MsgRecvPacket, error) {
	proof, ph, _, err := prover.ProofAt(host.PacketCommitmentKey(p.SourceChain, p.DestinationChain, p.Sequence), v)
	if err != nil {
		return nil, err
	}
	return packettypes.NewMsgRecvPacket(p, proof, ph, signer.Addr), nil
}

// MsgAck builds a MsgAcknowledgement proving the ack from `prover` at version v.
func (w *World) MsgAck(p packettypes.Packet, ack []byte, prover *Node, v int64, signer *Account) (*packettypes.MsgAcknowledgement, error) {
	proof, ph, _, err := prover.ProofAt(host.PacketAcknowledgementKey(p.SourceChain, p.DestinationChain, p.Sequence), v)
	if err != nil {
		return nil, err
	}
	return packettypes.NewMsgAcknowledgement(p, ack, proof, ph, signer.Addr), nil
}

// MsgRecvClean builds a MsgRecvCleanPacket proving the clean point from `prover` at version v.
func (w *World) MsgRecvClean(cp packettypes.CleanPacket, prover *Node, v int64, signer *Account) (*packettypes.MsgRecvCleanPacket, error) {
	proof, ph, _, err := prover.ProofAt(host.CleanPacketCommitmentKey(cp.SourceChain, cp.DestinationChain), v)
	if err != nil {
		return nil, err
	}
	return packettypes.NewMsgRecvCleanPacket(cp, proof, ph, signer.Addr), nil
}

// NextHopOfPacket returns the chain that must receive p next when it sits on `at`.
func NextHopOfPacket(p packettypes.Packet, at string) string {
	if at == p.SourceChain && p.RelayChain != "" {
		return p.RelayChain
	}
	return p.DestinationChain
}

// PrevHopOfAck returns the chain that must receive the ack next when it sits on `at`.
func PrevHopOfAck(p packettypes.Packet, at string) string {
	if at == p.DestinationChain && p.RelayChain != "" {
		return p.RelayChain
	}
	return p.SourceChain
}

// SyncClient brings dst's client of src up to src's latest header using a
// single-tx block; returns the tx result (nil if already current).
func (w *World) SyncClient(dst, src *Node, signer *Account) (*TxResult, error) {
	latest, ok := w.ClientLatest(dst, src.Name)
	if !ok {
		return nil, fmt.Errorf("no client of %s on %s", src.Name, dst.Name)
	}
	if int64(latest.RevisionHeight) >= src.Height {
		return nil, nil
	}
	msg, err := w.MsgUpdate(dst, src, src.Height, signer)
	if err != nil {
		return nil, err
	}
	return w.One(dst, &TxReq{Signer: signer, Msgs: []sdk.Msg{msg}, Label: "update(" + src.Name + ")"})
}

// SortedKeys helper for deterministic iteration.
func SortedKeys[V any](m map[string]V) []string {
	ks := make([]string, 0, len(m))
	for k := range m {
		ks = append(ks, k)
	}
	sort.Strings(ks)
	return ks
}

// Short prints at most n bytes of s in a log friendly way.
func Short(s string, n int) string {
	s = strings.ToValidUTF8(s, "?")
	if len(s) > n {
		return s[:n] + "…"
	}
	return s
}
