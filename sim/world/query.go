package world

import (
	"context"
	"fmt"
	"strconv"

	abci "github.com/cometbft/cometbft/abci/types"

	clienttypes "github.com/bianjieai/tibc-go/modules/tibc/core/02-client/types"
	packettypes "github.com/bianjieai/tibc-go/modules/tibc/core/04-packet/types"
	commitmenttypes "github.com/bianjieai/tibc-go/modules/tibc/core/23-commitment/types"
	host "github.com/bianjieai/tibc-go/modules/tibc/core/24-host"
	"github.com/bianjieai/tibc-go/modules/tibc/core/exported"
)

// Revision of a chain name (tibc heights carry the revision parsed from the chain id).
func Revision(chain string) uint64 { return clienttypes.ParseChainID(chain) }

// ProofAt queries the tibc store at IAVL version `version` with a proof.  The
// proof verifies against the header of height version+1.
func (n *Node) ProofAt(key []byte, version int64) (proof []byte, proofHeight clienttypes.Height, value []byte, err error) {
	if version < 1 || version > n.Height {
		return nil, clienttypes.Height{}, nil, fmt.Errorf("no version %d on %s", version, n.Name)
	}
	res, err := n.App.Query(context.Background(), &abci.RequestQuery{
		Path: fmt.Sprintf("store/%s/key", host.StoreKey), Height: version, Data: key, Prove: true,
	})
	if err != nil {
		return nil, clienttypes.Height{}, nil, err
	}
	if res.Code != 0 {
		return nil, clienttypes.Height{}, nil, fmt.Errorf("query failed: %s", res.Log)
	}
	mp, err := commitmenttypes.ConvertProofs(res.ProofOps)
	if err != nil {
		return nil, clienttypes.Height{}, nil, err
	}
	bz, err := n.App.AppCodec().Marshal(&mp)
	if err != nil {
		return nil, clienttypes.Height{}, nil, err
	}
	return bz, clienttypes.NewHeight(Revision(n.Name), uint64(res.Height)+1), res.Value, nil
}

// ClientState of `chain` as stored on n (committed state).
func (n *Node) ClientState(chain string) (exported.ClientState, bool) {
	return n.App.TIBCKeeper.ClientKeeper.GetClientState(n.QueryCtx(), chain)
}

func (n *Node) ConsensusState(chain string, h exported.Height) (exported.ConsensusState, bool) {
	return n.App.TIBCKeeper.ClientKeeper.GetClientConsensusState(n.QueryCtx(), chain, h)
}

func (n *Node) ClientStatus(chain string) exported.Status {
	ctx := n.QueryCtx()
	cs, ok := n.App.TIBCKeeper.ClientKeeper.GetClientState(ctx, chain)
	if !ok {
		return exported.Unknown
	}
	return cs.Status(ctx, n.App.TIBCKeeper.ClientKeeper.ClientStore(ctx, chain), n.App.AppCodec())
}

func (n *Node) HasCommitment(src, dst string, seq uint64) bool {
	return n.App.TIBCKeeper.PacketKeeper.HasPacketCommitment(n.QueryCtx(), src, dst, seq)
}
func (n *Node) Commitment(src, dst string, seq uint64) []byte {
	return n.App.TIBCKeeper.PacketKeeper.GetPacketCommitment(n.QueryCtx(), src, dst, seq)
}
func (n *Node) HasReceipt(src, dst string, seq uint64) bool {
	return n.App.TIBCKeeper.PacketKeeper.HasPacketReceipt(n.QueryCtx(), src, dst, seq)
}
func (n *Node) AckHash(src, dst string, seq uint64) ([]byte, bool) {
	return n.App.TIBCKeeper.PacketKeeper.GetPacketAcknowledgement(n.QueryCtx(), src, dst, seq)
}
func (n *Node) CleanPoint(src, dst string) uint64 {
	bz := n.App.TIBCKeeper.PacketKeeper.GetCleanPacketCommitment(n.QueryCtx(), src, dst)
	if len(bz) == 0 {
		return 0
	}
	var v uint64
	for _, b := range bz {
		v = v<<8 | uint64(b)
	}
	return v
}
func (n *Node) MaxAckSeq(src, dst string) uint64 {
	return n.App.TIBCKeeper.PacketKeeper.GetMaxAckSequence(n.QueryCtx(), src, dst)
}
func (n *Node) NextSeqSend(src, dst string) uint64 {
	return n.App.TIBCKeeper.PacketKeeper.GetNextSequenceSend(n.QueryCtx(), src, dst)
}

// PacketEvent is a packet-layer event parsed from a tx result.
type PacketEvent struct {
	Type   string // send_packet, recv_packet, write_acknowledgement, acknowledge_packet, send_clean_packet, recv_clean_packet
	Packet packettypes.Packet
	Ack    []byte
	HasAck bool
}

// ParsePacketEvents extracts the packet-layer events of a tx result in order.
func ParsePacketEvents(evs []abci.Event) []PacketEvent {
	var out []PacketEvent
	for _, e := range evs {
		switch e.Type {
		case packettypes.EventTypeSendPacket, packettypes.EventTypeRecvPacket, packettypes.EventTypeWriteAck,
			packettypes.EventTypeAcknowledgePacket, packettypes.EventTypeSendCleanPacket, packettypes.EventTypeRecvCleanPacket:
		default:
			continue
		}
		pe := PacketEvent{Type: e.Type}
		for _, a := range e.Attributes {
			switch a.Key {
			case packettypes.AttributeKeyData:
				pe.Packet.Data = []byte(a.Value)
			case packettypes.AttributeKeySequence:
				pe.Packet.Sequence, _ = strconv.ParseUint(a.Value, 10, 64)
			case packettypes.AttributeKeyPort:
				pe.Packet.Port = a.Value
			case packettypes.AttributeKeySrcChain:
				pe.Packet.SourceChain = a.Value
			case packettypes.AttributeKeyDstChain:
				pe.Packet.DestinationChain = a.Value
			case packettypes.AttributeKeyRelayChain:
				pe.Packet.RelayChain = a.Value
			case packettypes.AttributeKeyAck:
				pe.Ack = []byte(a.Value)
				pe.HasAck = true
			}
		}
		out = append(out, pe)
	}
	return out
}

// CountEvents counts events of a type in a tx result.
func CountEvents(evs []abci.Event, typ string) int {
	c := 0
	for _, e := range evs {
		if e.Type == typ {
			c++
		}
	}
	return c
}
